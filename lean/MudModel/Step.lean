/-
  MudModel.Step — one complete step of `TrajectorySH.simulate()` (FSSH, exponential integrator, Tully probabilities)
  as the composition of the pieces modelled elsewhere, in the order of the code:

      advance_position (force of the OLD electronics)            Verlet.advancePosition
      electronics at the new position                             ← parameter (`model.update`)
      advance_velocity (last_velocity ← copy of velocity)        Verlet.advanceVelocity
      propagate_electronics (W from the TRUE midpoint velocity)  Electronic.hamProp / expStep (eigh(W) ← parameter)
      surface_hopping: gkndt from the NEW rho, hopper, hop_to_it  Hopping.gkndt / hopper, Hop.hopToIt
      time += dt; nsteps += 1

  `shRun` folds the step over a list of per-step inputs (new electronics, eigen-decomposition of W, threshold).
-/
import MudModel.Verlet
import MudModel.Electronic
import MudModel.Hopping
import MudModel.Hop
import MudModel.Ehrenfest

namespace Mud
variable {α : Type} {N n : Nat}

/-- what one FSSH step reads from an electronics object -/
structure Elec (α : Type) (N n : Nat) where
  /-- `hamiltonian()` -/
  H : M α N N
  /-- `derivative_coupling_tensor()` -/
  dc : Fin N → Fin N → Fin n → α
  /-- `force(i)` -/
  force : Fin N → Fin n → α

/-- the mutable state of the trajectory -/
structure SH (α : Type) (N n : Nat) where
  x : Vec α n
  v : Vec α n
  vlast : Vec α n
  rho : M (Cx α) N N
  state : Fin N
  time : α
  nsteps : Nat

/-- per-step external inputs: electronics at the new position, `eigh(W)` and the random threshold -/
structure StepIn (α : Type) (N n : Nat) where
  elec : Elec α N n
  diags : Fin N → α
  coeff : M (Cx α) N N
  zeta : α

/-- what the step logged: `none`, or `(accepted, from, to)` -/
abbrev StepEvent := Option (Bool × Nat × Nat)

section
variable [Add α] [Sub α] [Mul α] [Div α] [Neg α] [Zero α] [One α] [NatCast α] [LT α] [DecidableLT α]
  [HasSqrt α] [HasTrig α] [HasAbs α] [HasExp α]

/-- the midpoint generator the step uses (for `propagate_electronics` and again for the hopping probabilities) -/
def stepW (eLast eNew : Elec α N n) (v vlast : Fin n → α) : M (Cx α) N N :=
  hamProp eNew.H eLast.H eNew.dc eLast.dc (midVelocity v vlast)

/-- one step of `simulate()` -/
def shStep (m : Fin n → α) (dt : α) (eLast : Elec α N n) (inp : StepIn α N n) (s : SH α N n) :
    SH α N n × StepEvent :=
  -- advance_position
  let a0 := accel (eLast.force s.state) m
  let x1 := Vec.ofFn (advancePosition s.x.get s.v.get a0 dt)
  -- advance_velocity
  let a1 := accel (inp.elec.force s.state) m
  let v1 := Vec.ofFn (advanceVelocity s.v.get a0 a1 dt)
  let vlast1 := s.v
  -- propagate_electronics
  let rho1 := expStep inp.diags inp.coeff dt s.rho
  -- surface_hopping
  let W := stepW eLast inp.elec v1.get vlast1.get
  let g : List α := List.ofFn (fun j : Fin N => gkndt (fun a b => rho1.get a b) (fun a b => W.get a b) s.state dt j)
  let hop := (hopper false inp.zeta g).2
  let base : SH α N n := { x := x1, v := v1, vlast := vlast1, rho := rho1, state := s.state, time := s.time + dt,
                           nsteps := s.nsteps + 1 }
  match hop with
  | none => (base, none)
  | some (t, _) =>
    if h : t < N then
      let tgt : Fin N := ⟨t, h⟩
      let energies : Fin N → α := fun i => inp.elec.H.get i i
      let r := hopToIt m v1.get (fun x => inp.elec.dc s.state tgt x) energies s.state tgt
      if r.accepted then ({ base with v := Vec.ofFn r.velocity, state := tgt }, some (true, s.state.val, t))
      else (base, some (false, s.state.val, t))
    else (base, none)

/-- the run: fold over the per-step inputs; the electronics of step `i` are the "last" electronics of step `i+1` -/
def shRun (m : Fin n → α) (dt : α) : Elec α N n → SH α N n → List (StepIn α N n) → List (SH α N n × StepEvent)
  | _, _, [] => []
  | eLast, s, inp :: rest =>
    let r := shStep m dt eLast inp s
    r :: shRun m dt inp.elec r.1 rest
end

/-! ### Ehrenfest: the same loop with the mean-field (as coded: population-weighted) force and no hopping -/

section ehrenfest
variable [Add α] [Sub α] [Mul α] [Div α] [Neg α] [Zero α] [One α] [NatCast α] [HasTrig α]

/-- one step of `Ehrenfest.simulate()`. The force that moves the nuclei is `Ehrenfest._force` evaluated with the density
    matrix as it is when the force is asked for: ρ of the START of the step for all three evaluations (it is propagated
    afterwards). `surface_hopping` does nothing: the label never changes. Returns also the logged potential `Re tr(ρ' H')`. -/
def ehStep (m : Fin n → α) (dt : α) (eLast : Elec α N n) (inp : StepIn α N n) (s : SH α N n) : SH α N n × α :=
  let rho0 : Fin N → Fin N → Cx α := fun a b => s.rho.get a b
  let a0 := accel (ehrenfestForcePinned rho0 eLast.force) m
  let x1 := Vec.ofFn (advancePosition s.x.get s.v.get a0 dt)
  let a1 := accel (ehrenfestForcePinned rho0 inp.elec.force) m
  let v1 := Vec.ofFn (advanceVelocity s.v.get a0 a1 dt)
  let rho1 := expStep inp.diags inp.coeff dt s.rho
  let pot := ehrenfestPotential (fun a b => rho1.get a b) (fun a b => inp.elec.H.get a b)
  ({ x := x1, v := v1, vlast := s.v, rho := rho1, state := s.state, time := s.time + dt, nsteps := s.nsteps + 1 }, pot)

def ehRun (m : Fin n → α) (dt : α) : Elec α N n → SH α N n → List (StepIn α N n) → List (SH α N n × α)
  | _, _, [] => []
  | eLast, s, inp :: rest =>
    let r := ehStep m dt eLast inp s
    r :: ehRun m dt inp.elec r.1 rest
end ehrenfest

/-! ### cumulative FSSH: the FSSH step with `TrajectoryCum.hopper` in place of the per-step threshold test -/

section cumulative
variable [Add α] [Sub α] [Mul α] [Div α] [Neg α] [Zero α] [One α] [NatCast α] [LT α] [DecidableLT α]
  [HasSqrt α] [HasTrig α] [HasAbs α] [HasExp α]

/-- per-step external inputs of the cumulative hopper: the uniform number `Generator.choice` would draw and the value
    `draw_new_zeta` would return (both only consumed when an attempt happens) -/
structure CumIn (α : Type) where
  u : α
  newZeta : α

/-- one step of `TrajectoryCum.simulate()` -/
def cumStep (m : Fin n → α) (dt : α) (eLast : Elec α N n) (inp : StepIn α N n) (ci : CumIn α)
    (sc : SH α N n × CumState α) : (SH α N n × CumState α) × StepEvent :=
  let s := sc.1
  let a0 := accel (eLast.force s.state) m
  let x1 := Vec.ofFn (advancePosition s.x.get s.v.get a0 dt)
  let a1 := accel (inp.elec.force s.state) m
  let v1 := Vec.ofFn (advanceVelocity s.v.get a0 a1 dt)
  let rho1 := expStep inp.diags inp.coeff dt s.rho
  let W := stepW eLast inp.elec v1.get s.v.get
  let g : List α := List.ofFn (fun j : Fin N => gkndt (fun a b => rho1.get a b) (fun a b => W.get a b) s.state dt j)
  let hr := cumHopper sc.2 g ci.u ci.newZeta
  let base : SH α N n := { x := x1, v := v1, vlast := s.v, rho := rho1, state := s.state, time := s.time + dt,
                           nsteps := s.nsteps + 1 }
  match hr.2 with
  | none => ((base, hr.1), none)
  | some (none, _, _) => ((base, hr.1), none)
  | some (some t, _, _) =>
    if h : t < N then
      let tgt : Fin N := ⟨t, h⟩
      let energies : Fin N → α := fun i => inp.elec.H.get i i
      let r := hopToIt m v1.get (fun x => inp.elec.dc s.state tgt x) energies s.state tgt
      if r.accepted then (({ base with v := Vec.ofFn r.velocity, state := tgt }, hr.1), some (true, s.state.val, t))
      else ((base, hr.1), some (false, s.state.val, t))
    else ((base, hr.1), none)

def cumRun (m : Fin n → α) (dt : α) : Elec α N n → SH α N n × CumState α → List (StepIn α N n × CumIn α) →
    List ((SH α N n × CumState α) × StepEvent)
  | _, _, [] => []
  | eLast, sc, (inp, ci) :: rest =>
    let r := cumStep m dt eLast inp ci sc
    r :: cumRun m dt inp.elec r.1 rest
end cumulative

end Mud

/-
  MudModel.Cx — a complex number as a pair over any scalar carrier.
  `Cx Float` runs; `Cx ℝ` is mapped to `ℂ` by `MudProof.CxReal.toC` (a ring hom, proved there).
-/
import MudModel.Num

namespace Mud

structure Cx (α : Type) where
  re : α
  im : α
deriving Repr

namespace Cx
variable {α : Type}

instance [Add α] : Add (Cx α) := ⟨fun a b => ⟨a.re + b.re, a.im + b.im⟩⟩
instance [Sub α] : Sub (Cx α) := ⟨fun a b => ⟨a.re - b.re, a.im - b.im⟩⟩
instance [Neg α] : Neg (Cx α) := ⟨fun a => ⟨-a.re, -a.im⟩⟩
instance [Add α] [Sub α] [Mul α] : Mul (Cx α) :=
  ⟨fun a b => ⟨a.re * b.re - a.im * b.im, a.re * b.im + a.im * b.re⟩⟩
instance [Zero α] : Zero (Cx α) := ⟨⟨0, 0⟩⟩

@[inline] def ofReal [Zero α] (x : α) : Cx α := ⟨x, 0⟩
@[inline] def conj [Neg α] (a : Cx α) : Cx α := ⟨a.re, -a.im⟩
@[inline] def smul [Mul α] (s : α) (a : Cx α) : Cx α := ⟨s * a.re, s * a.im⟩
/-- multiplication by `-i` : `-i (x + i y) = y - i x` -/
@[inline] def mulNegI [Neg α] (a : Cx α) : Cx α := ⟨a.im, -a.re⟩
/-- multiplication by `i` -/
@[inline] def mulI [Neg α] (a : Cx α) : Cx α := ⟨-a.im, a.re⟩
/-- `exp (i θ)` -/
@[inline] def expI [HasTrig α] (θ : α) : Cx α := ⟨cos θ, sin θ⟩
@[inline] def normSq [Add α] [Mul α] (a : Cx α) : α := a.re * a.re + a.im * a.im

@[simp] theorem add_re [Add α] (a b : Cx α) : (a + b).re = a.re + b.re := rfl
@[simp] theorem add_im [Add α] (a b : Cx α) : (a + b).im = a.im + b.im := rfl
@[simp] theorem sub_re [Sub α] (a b : Cx α) : (a - b).re = a.re - b.re := rfl
@[simp] theorem sub_im [Sub α] (a b : Cx α) : (a - b).im = a.im - b.im := rfl
@[simp] theorem neg_re [Neg α] (a : Cx α) : (-a).re = -a.re := rfl
@[simp] theorem neg_im [Neg α] (a : Cx α) : (-a).im = -a.im := rfl
@[simp] theorem mul_re [Add α] [Sub α] [Mul α] (a b : Cx α) :
    (a * b).re = a.re * b.re - a.im * b.im := rfl
@[simp] theorem mul_im [Add α] [Sub α] [Mul α] (a b : Cx α) :
    (a * b).im = a.re * b.im + a.im * b.re := rfl
@[simp] theorem zero_re [Zero α] : (0 : Cx α).re = 0 := rfl
@[simp] theorem zero_im [Zero α] : (0 : Cx α).im = 0 := rfl

end Cx
end Mud

/-
  MudModel.Ehrenfest — `mudslide.ehrenfest.Ehrenfest`: potential energy, force, (disabled) hopping.
  `ehrenfestForcePinned` mirrors the code (`sum_i Re(rho_ii) F_i`, no coherence term);
  `ehrenfestForceSpec` is the mean-field force `-tr(rho grad H)` the property requires.
-/
import MudModel.Cx

namespace Mud
variable {α : Type} {N n : Nat}
variable [Add α] [Sub α] [Mul α] [Zero α]

/-- `np.real(np.trace(np.dot(rho, H)))`, `H` real -/
def ehrenfestPotential (rho : Fin N → Fin N → Cx α) (H : Fin N → Fin N → α) : α :=
  vsum (fun i => vsum (fun j => (rho i j).re * H j i))

/-- `Ehrenfest._force`: `sum_i Re(rho_ii) * force(i)` -/
def ehrenfestForcePinned (rho : Fin N → Fin N → Cx α) (F : Fin N → Fin n → α) : Fin n → α :=
  fun x => vsum (fun i => (rho i i).re * F i x)

/-- the mean-field force `-tr(rho grad H)` with the force matrix `FM_ij = -<i|grad H|j>` (real) -/
def ehrenfestForceSpec (rho : Fin N → Fin N → Cx α) (FM : Fin N → Fin N → Fin n → α) : Fin n → α :=
  fun x => vsum (fun i => vsum (fun j => (rho i j).re * FM j i x))

/-- `Ehrenfest.surface_hopping`: never hops -/
def ehrenfestHop (state : Nat) : Nat := state

end Mud

/-
  MudModel.AStep — one complete step of `AugmentedFSSH.simulate()` (exponential integrators), composed from the pieces
  modelled in Electronic / AFSSH / Collapse / Hopping / Hop, in the order of the code:

      advance_position         Verlet position (force of the OLD electronics), then
        advance_delR(last, this) with the electronics of the PREVIOUS step pair and the velocities BEFORE this step's update
      electronics at the new position                         ← parameter
      advance_velocity         Verlet velocity, last_velocity ← copy, then
        advance_delP(last, this) with the new pair, δF from the NEW electronics, ρ of the start of the step
      propagate_electronics    ρ' = expStep ρ
      surface_hopping          FSSH part (direction of rescale = Re(δP_src,src − δP_tgt,tgt), hop_update on an accepted hop),
                               then the collapse loop (`gammaCollapse`, `collapseScan`) on the state active AFTER the hop
      time += dt
-/
import MudModel.Step
import MudModel.AFSSH
import MudModel.Collapse

namespace Mud
variable {α : Type} {N n : Nat}

/-- electronics as A-FSSH reads them: additionally the force matrix -/
structure ElecA (α : Type) (N n : Nat) where
  e : Elec α N n
  /-- `force_matrix()[i,j,x]` -/
  fm : Fin N → Fin N → Fin n → α

structure AF (α : Type) (N n : Nat) where
  s : SH α N n
  delR : Vec (M (Cx α) N N) n
  delP : Vec (M (Cx α) N N) n

/-- external inputs of one step: new electronics; `eigh` of the generator as returned inside advance_delR, advance_delP and
    propagate_electronics; the hopping threshold; the random numbers of the collapse loop -/
structure AStepIn (α : Type) (N n : Nat) where
  elec : ElecA α N n
  epsR : Fin N → α
  coR : M (Cx α) N N
  epsP : Fin N → α
  coP : M (Cx α) N N
  diags : Fin N → α
  coeff : M (Cx α) N N
  zeta : α
  es : List α

/-- what a step logged: hop event as in `StepEvent`, and the collapse events -/
abbrev AStepEvent (α : Type) := StepEvent × List (CollapseEvent α)

/-- the two generators a step builds: the one handed to `eigh` in advance_delR (previous pair of electronics, velocities
    before the update) and the one of advance_delP / propagate_electronics / the hopping probabilities (new pair) -/
structure AGen (α : Type) (N : Nat) where
  HR : M (Cx α) N N
  W : M (Cx α) N N

section
variable [Add α] [Sub α] [Mul α] [Div α] [Neg α] [Zero α] [One α] [NatCast α] [LT α] [DecidableLT α]
  [HasSqrt α] [HasTrig α] [HasAbs α] [HasExp α]

/-- `hop_update` on one moment matrix: every diagonal entry minus (a copy of) the target's, off-diagonals untouched -/
def shiftDiag (T : M (Cx α) N N) (t : Fin N) : M (Cx α) N N :=
  Tab.ofFn (fun i j => if i = j then hopUpdate (fun k => T.get k k) t i else T.get i j)

def zeroMoment : M (Cx α) N N := Tab.ofFn (fun _ _ => (⟨0, 0⟩ : Cx α))

def pureState (k : Fin N) : M (Cx α) N N := Tab.ofFn (fun i j => if i = k ∧ j = k then (⟨1, 0⟩ : Cx α) else ⟨0, 0⟩)

/-- everything of a step up to and including the FSSH hop attempt; `ePrev` = electronics of the step before `eLast`
    (= `eLast` on the first step, where the code passes `None`) -/
def afHop (m : Fin n → α) (dt : α) (ePrev eLast : ElecA α N n) (inp : AStepIn α N n) (a : AF α N n) :
    AF α N n × StepEvent × AGen α N :=
  let s := a.s
  let HR := stepW ePrev.e eLast.e s.v.get s.vlast.get
  -- advance_position + advance_delR (uses delP of the start of the step)
  let a0 := accel (eLast.e.force s.state) m
  let x1 := Vec.ofFn (advancePosition s.x.get s.v.get a0 dt)
  let delR1 : Vec (M (Cx α) N N) n :=
    Vec.ofFn (fun x => delRexp inp.epsR inp.coR dt (m x) (a.delR.get x) (a.delP.get x))
  -- advance_velocity + advance_delP
  let a1 := accel (inp.elec.e.force s.state) m
  let v1 := Vec.ofFn (advanceVelocity s.v.get a0 a1 dt)
  let F0 : Fin n → α := inp.elec.e.force s.state
  let delP1 : Vec (M (Cx α) N N) n :=
    Vec.ofFn (fun x => delPexp inp.epsP inp.coP dt (a.delP.get x)
      (delF (Tab.ofFn (fun i j => inp.elec.fm i j x)) (F0 x)) s.rho)
  -- propagate_electronics
  let rho1 := expStep inp.diags inp.coeff dt s.rho
  -- surface_hopping, FSSH part
  let W := stepW eLast.e inp.elec.e v1.get s.v.get
  let g : List α := List.ofFn (fun j : Fin N => gkndt (fun p q => rho1.get p q) (fun p q => W.get p q) s.state dt j)
  let hop := (hopper false inp.zeta g).2
  let base : SH α N n := { x := x1, v := v1, vlast := s.v, rho := rho1, state := s.state, time := s.time + dt,
                           nsteps := s.nsteps + 1 }
  match hop with
  | none => (⟨base, delR1, delP1⟩, none, ⟨HR, W⟩)
  | some (t, _) =>
    if h : t < N then
      let tgt : Fin N := ⟨t, h⟩
      let energies : Fin N → α := fun i => inp.elec.e.H.get i i
      let dir : Fin n → α := fun x => ((delP1.get x).get s.state s.state).re - ((delP1.get x).get tgt tgt).re
      let r := hopToIt m v1.get dir energies s.state tgt
      if r.accepted then
        (⟨{ base with v := Vec.ofFn r.velocity, state := tgt },
          Vec.ofFn (fun x => shiftDiag (delR1.get x) tgt), Vec.ofFn (fun x => shiftDiag (delP1.get x) tgt)⟩,
         some (true, s.state.val, t), ⟨HR, W⟩)
      else (⟨base, delR1, delP1⟩, some (false, s.state.val, t), ⟨HR, W⟩)
    else (⟨base, delR1, delP1⟩, none, ⟨HR, W⟩)

/-- the collapse loop of `surface_hopping`, on the state that is active after the hop attempt -/
def afCollapse (dt : α) (inp : AStepIn α N n) (a : AF α N n) : AF α N n × List (CollapseEvent α) :=
  let gam : Fin N → α := gammaCollapse a.s.state (fun x i => ((a.delR.get x).get i i).re)
    (fun x i => ((a.delP.get x).get i i).re) (fun i x => inp.elec.fm i i x) dt
  let gamN : Nat → α := fun i => if h : i < N then gam ⟨i, h⟩ else 0
  let evs := collapseScan gamN (otherStates N a.s.state.val) inp.es
  if evs.isEmpty then (a, evs)
  else (⟨{ a.s with rho := pureState a.s.state }, Vec.ofFn (fun _ => zeroMoment), Vec.ofFn (fun _ => zeroMoment)⟩, evs)

/-- one step of `AugmentedFSSH.simulate()` -/
def afStep (m : Fin n → α) (dt : α) (ePrev eLast : ElecA α N n) (inp : AStepIn α N n) (a : AF α N n) :
    AF α N n × AStepEvent α × AGen α N :=
  let h := afHop m dt ePrev eLast inp a
  let c := afCollapse dt inp h.1
  (c.1, (h.2.1, c.2), h.2.2)

def afRun (m : Fin n → α) (dt : α) : ElecA α N n → ElecA α N n → AF α N n → List (AStepIn α N n) →
    List (AF α N n × AStepEvent α × AGen α N)
  | _, _, _, [] => []
  | ePrev, eLast, a, inp :: rest =>
    let r := afStep m dt ePrev eLast inp a
    r :: afRun m dt eLast inp.elec r.1 rest
end

end Mud

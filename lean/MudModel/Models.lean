/-
  MudModel.Models — diabatic potentials `V(x)` and their hand-written gradients `dV(x)` of the
  one-dimensional built-in models (`mudslide.models.scattering_models`), entry by entry, with the
  constructor parameters as arguments.  Entries are given as functions of the position so that the
  theorems can talk about derivatives.  (Shin–Metiu, the 5-D vibronic model and Subotnik2D are tied to
  the code by the finite-difference oracle only.)
-/
import MudModel.Num

namespace Mud.Models
variable {α : Type}
variable [Add α] [Sub α] [Mul α] [Div α] [Neg α] [Zero α] [One α] [NatCast α] [LT α] [DecidableLT α]
  [HasAbs α] [HasExp α] [HasTrig α]

/-- `np.copysign(A, x)` (for `x ≠ 0`) -/
def copysign (a x : α) : α := if x < 0 then -(HasAbs.abs a) else HasAbs.abs a

/-! ### Tully simple avoided crossing: parameters `A B C D` -/
def simpleV11 (A B x : α) : α := copysign A x * (1 - exp (-B * HasAbs.abs x))
def simpleV12 (C D x : α) : α := C * exp (-D * x * x)
def simpleD11 (A B x : α) : α := A * B * exp (-B * HasAbs.abs x)
def simpleD12 (C D x : α) : α := -(lit 2) * C * D * x * exp (-D * x * x)

/-! ### Tully dual avoided crossing: `A B C D E0` -/
def dualV22 (A B E0 x : α) : α := -A * exp (-B * x * x) + E0
def dualV12 (C D x : α) : α := C * exp (-D * x * x)
def dualD22 (A B x : α) : α := lit 2 * A * B * x * exp (-B * x * x)
def dualD12 (C D x : α) : α := -(lit 2) * C * D * x * exp (-D * x * x)

/-! ### Tully extended coupling: `A B C` -/
def extendedV12 (B C x : α) : α :=
  let e := exp (-(HasAbs.abs x) * C)
  if x < 0 then B * e else B * (lit 2 - e)
def extendedD12 (B C x : α) : α := B * C * exp (-C * HasAbs.abs x)

/-! ### super exchange: couplings `v e^{-x²/2}` -/
def superV (v x : α) : α := v * exp (-(frac 1 2) * x * x)
def superD (v x : α) : α := -x * v * exp (-(frac 1 2) * x * x)

/-! ### Subotnik models X and S: building blocks `a tanh(b y)` and `c e^{-y²}` at shifted positions -/
def tanTerm (a b y : α) : α := a * tanh (b * y)
def tanTermD (a b y : α) : α := a * b / (cosh (b * y) * cosh (b * y))
def gaussTerm (c y : α) : α := c * exp (-(y * y))
def gaussTermD (c y : α) : α := -(lit 2) * y * c * exp (-(y * y))

/-- model X diagonal entries from the three shifted positions `y0 = x - xp, y1 = x, y2 = x + xp` -/
def modelxV11 (a b xp x : α) : α := tanTerm a b x + tanTerm a b (x + xp)
def modelxV22 (a b xp x : α) : α := -(tanTerm a b (x - xp) + tanTerm a b x)
def modelxV33 (a b xp x : α) : α := -(tanTerm a b (x + xp) - tanTerm a b (x - xp))
def modelxD11 (a b xp x : α) : α := tanTermD a b x + tanTermD a b (x + xp)
def modelxD22 (a b xp x : α) : α := -(tanTermD a b (x - xp) + tanTermD a b x)
def modelxD33 (a b xp x : α) : α := -(tanTermD a b (x + xp) - tanTermD a b (x - xp))

/-- model S -/
def modelsV11 (a b xp x : α) : α := tanTerm a b (x - xp) - tanTerm a b (x + xp) + a
def modelsV33 (a d x : α) : α := lit 2 * a * tanh (d * x)
def modelsV12 (c xp x : α) : α := gaussTerm c (x + xp) + gaussTerm c (x - xp)
def modelsD11 (a b xp x : α) : α := tanTermD a b (x - xp) - tanTermD a b (x + xp)
def modelsD33 (a d x : α) : α := lit 2 * a * d / (cosh (d * x) * cosh (d * x))
def modelsD12 (c xp x : α) : α := gaussTermD c (x + xp) + gaussTermD c (x - xp)

/-! ### Subotnik models W and Z: `N` crossing lines, constant coupling `v` -/

/-- model W: diagonal entry of state `m` (1-based), slope `s = tan(π/2 - (2m-1)π/2N)` passed as a parameter -/
def modelwDiag (s eps : α) (m : Nat) (x : α) : α := s * x + ((m - 1 : Nat) : α) * eps
/-- the gradient of that entry -/
def modelwDiagD (s : α) : α := s
/-- what the pinned `dV` returns for the diagonal entry: the slope **plus the offset** -/
def modelwDiagDPinned (s eps : α) (m : Nat) : α := s + ((m - 1 : Nat) : α) * eps

/-- model Z: first half `x + (m-1) eps`, second half `-x + (N-m) eps` -/
def modelzDiag (N : Nat) (eps : α) (m : Nat) (x : α) : α :=
  if m ≤ N / 2 then x + ((m - 1 : Nat) : α) * eps else -x + ((N - m : Nat) : α) * eps
def modelzDiagD (N : Nat) (m : Nat) : α := if m ≤ N / 2 then 1 else -1
/-- the pinned `dV` of model Z returns the potential itself -/
def modelzDiagDPinned (N : Nat) (eps : α) (m : Nat) (x : α) : α := modelzDiag N eps m x

end Mud.Models

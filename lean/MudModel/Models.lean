/-
  MudModel.Models — diabatic potentials `V(x)` and their hand-written gradients `dV(x)` of the
  one-dimensional built-in models (`mudslide.models.scattering_models`), entry by entry, with the
  constructor parameters as arguments.  Entries are given as functions of the position so that the
  theorems can talk about derivatives.  The two multi-dimensional diabatic models (Subotnik2D, the 5-D linear vibronic
  model) follow at the end, coordinate by coordinate.  (Shin–Metiu, an `AdiabaticModel_` on a grid, is tied to the code by the
  finite-difference oracle only.)
-/
import MudModel.Num

namespace Mud.Models
variable {α : Type}
variable [Add α] [Sub α] [Mul α] [Div α] [Neg α] [Zero α] [One α] [NatCast α] [LT α] [DecidableLT α]
  [HasAbs α] [HasExp α] [HasTrig α]

/-- `np.copysign(A, x)` (for `x ≠ 0`) -/
def copysign (a x : α) : α := if x < 0 then -(HasAbs.abs a) else HasAbs.abs a

/-! ### Tully simple avoided crossing: parameters `A B C D` -/
def simpleV11 (A B x : α) : α := copysign A x * (1 - exp (-B * HasAbs.abs x))
def simpleV12 (C D x : α) : α := C * exp (-D * x * x)
def simpleD11 (A B x : α) : α := A * B * exp (-B * HasAbs.abs x)
def simpleD12 (C D x : α) : α := -(lit 2) * C * D * x * exp (-D * x * x)

/-! ### Tully dual avoided crossing: `A B C D E0` -/
def dualV22 (A B E0 x : α) : α := -A * exp (-B * x * x) + E0
def dualV12 (C D x : α) : α := C * exp (-D * x * x)
def dualD22 (A B x : α) : α := lit 2 * A * B * x * exp (-B * x * x)
def dualD12 (C D x : α) : α := -(lit 2) * C * D * x * exp (-D * x * x)

/-! ### Tully extended coupling: `A B C` -/
def extendedV12 (B C x : α) : α :=
  let e := exp (-(HasAbs.abs x) * C)
  if x < 0 then B * e else B * (lit 2 - e)
def extendedD12 (B C x : α) : α := B * C * exp (-C * HasAbs.abs x)

/-! ### super exchange: couplings `v e^{-x²/2}` -/
def superV (v x : α) : α := v * exp (-(frac 1 2) * x * x)
def superD (v x : α) : α := -x * v * exp (-(frac 1 2) * x * x)

/-! ### Subotnik models X and S: building blocks `a tanh(b y)` and `c e^{-y²}` at shifted positions -/
def tanTerm (a b y : α) : α := a * tanh (b * y)
def tanTermD (a b y : α) : α := a * b / (cosh (b * y) * cosh (b * y))
def gaussTerm (c y : α) : α := c * exp (-(y * y))
def gaussTermD (c y : α) : α := -(lit 2) * y * c * exp (-(y * y))

/-- model X diagonal entries from the three shifted positions `y0 = x - xp, y1 = x, y2 = x + xp` -/
def modelxV11 (a b xp x : α) : α := tanTerm a b x + tanTerm a b (x + xp)
def modelxV22 (a b xp x : α) : α := -(tanTerm a b (x - xp) + tanTerm a b x)
def modelxV33 (a b xp x : α) : α := -(tanTerm a b (x + xp) - tanTerm a b (x - xp))
def modelxD11 (a b xp x : α) : α := tanTermD a b x + tanTermD a b (x + xp)
def modelxD22 (a b xp x : α) : α := -(tanTermD a b (x - xp) + tanTermD a b x)
def modelxD33 (a b xp x : α) : α := -(tanTermD a b (x + xp) - tanTermD a b (x - xp))

/-- model S -/
def modelsV11 (a b xp x : α) : α := tanTerm a b (x - xp) - tanTerm a b (x + xp) + a
def modelsV33 (a d x : α) : α := lit 2 * a * tanh (d * x)
def modelsV12 (c xp x : α) : α := gaussTerm c (x + xp) + gaussTerm c (x - xp)
def modelsD11 (a b xp x : α) : α := tanTermD a b (x - xp) - tanTermD a b (x + xp)
def modelsD33 (a d x : α) : α := lit 2 * a * d / (cosh (d * x) * cosh (d * x))
def modelsD12 (c xp x : α) : α := gaussTermD c (x + xp) + gaussTermD c (x - xp)

/-! ### Subotnik models W and Z: `N` crossing lines, constant coupling `v` -/

/-- model W: diagonal entry of state `m` (1-based), slope `s = tan(π/2 - (2m-1)π/2N)` passed as a parameter -/
def modelwDiag (s eps : α) (m : Nat) (x : α) : α := s * x + ((m - 1 : Nat) : α) * eps
/-- the gradient of that entry -/
def modelwDiagD (s : α) : α := s
/-- what the pinned `dV` returns for the diagonal entry: the slope **plus the offset** -/
def modelwDiagDPinned (s eps : α) (m : Nat) : α := s + ((m - 1 : Nat) : α) * eps

/-- model Z: first half `x + (m-1) eps`, second half `-x + (N-m) eps` -/
def modelzDiag (N : Nat) (eps : α) (m : Nat) (x : α) : α :=
  if m ≤ N / 2 then x + ((m - 1 : Nat) : α) * eps else -x + ((N - m : Nat) : α) * eps
def modelzDiagD (N : Nat) (m : Nat) : α := if m ≤ N / 2 then 1 else -1
/-- the pinned `dV` of model Z returns the potential itself -/
def modelzDiagDPinned (N : Nat) (eps : α) (m : Nat) (x : α) : α := modelzDiag N eps m x

/-! ### Subotnik2D (two states, coordinates `x, y`); `hp` is the literal `np.pi * 0.5` passed as a parameter -/

/-- `z = b (x - 1) + w cos(g y + π/2)` -/
def sub2dZ (b w g hp x y : α) : α := b * (x - 1) + w * cos (g * y + hp)
def sub2dV11 (f b x : α) : α := -f * tanh (b * x)
def sub2dV22 (a b w g hp x y : α) : α := a * tanh (sub2dZ b w g hp x y) + frac 3 4 * a
def sub2dV12 (c d x : α) : α := c * exp (-d * x * x)
/-- `dV[0]` entries (∂/∂x) -/
def sub2dD11x (f b x : α) : α := -f * b / (cosh (b * x) * cosh (b * x))
def sub2dD22x (a b w g hp x y : α) : α := a * b / (cosh (sub2dZ b w g hp x y) * cosh (sub2dZ b w g hp x y))
def sub2dD12x (c d x : α) : α := -(lit 2) * d * x * c * exp (-d * x * x)
/-- `dV[1]` entries (∂/∂y): only `V22` depends on `y` -/
def sub2dD22y (a b w g hp x y : α) : α :=
  a * (-w * g * sin (g * y + hp)) / (cosh (sub2dZ b w g hp x y) * cosh (sub2dZ b w g hp x y))

/-! ### the 5-D linear vibronic model: four tuning modes `X_0..X_3` and the torsion `θ = X_4` -/

/-- `w0 + Σ k_i X_i + Σ An_i sin²((i+1)θ)` plus the vertical energy `E`: the diagonal entry with couplings `k` -/
def vibDiag (E : α) (om k An : Fin 4 → α) (X : Fin 4 → α) (theta : α) : α :=
  E + vsum (fun i => om i / lit 2 * (X i * X i)) + vsum (fun i => k i * X i)
    + vsum (fun i : Fin 4 => An i * (sin (((i.val + 1 : Nat) : α) * theta) * sin (((i.val + 1 : Nat) : α) * theta)))
/-- `dV[i]`, i < 4: `om_i X_i + k_i` -/
def vibDiagDmode (om k : Fin 4 → α) (X : Fin 4 → α) (i : Fin 4) : α := om i * X i + k i
/-- `dV[4]`: `Σ An_i 2 (i+1) sin((i+1)θ) cos((i+1)θ)` -/
def vibDiagDtheta (An : Fin 4 → α) (theta : α) : α :=
  vsum (fun i : Fin 4 => An i * lit 2 * ((i.val + 1 : Nat) : α) * (sin (((i.val + 1 : Nat) : α) * theta) * cos (((i.val + 1 : Nat) : α) * theta)))
/-- the coupling `λ r0 sin θ` and its torsional derivative -/
def vibV12 (lamb r0 theta : α) : α := lamb * r0 * sin theta
def vibD12theta (lamb r0 theta : α) : α := lamb * r0 * cos theta

end Mud.Models

/-
  MudModel.Num — scalar operation classes for the polymorphic model.

  Model functions are written against *operations only* (`Add`, `Mul`, `Sub`, `Neg`, `Div`,
  `Zero`, `One`, `NatCast`, `LT` + decidability, and the small classes below).  No laws are assumed.
  At `α := Float` the definitions run (correspondence check); at `α := ℝ` they are what the
  theorems in `MudProof` are about (instances in `MudProof/RealInst.lean`).
  This file imports nothing outside core Lean.
-/

namespace Mud

/-- square root (external libm call in the Python too) -/
class HasSqrt (α : Type) where
  sqrt : α → α

/-- `exp` and `expm1` (both libm calls in the Python). -/
class HasExp (α : Type) where
  exp : α → α
  expm1 : α → α

/-- trig / hyperbolic functions used by the model potentials -/
class HasTrig (α : Type) where
  sin : α → α
  cos : α → α
  tanh : α → α
  cosh : α → α

/-- absolute value -/
class HasAbs (α : Type) where
  abs : α → α

export HasSqrt (sqrt)
export HasExp (exp expm1)
export HasTrig (sin cos tanh cosh)

/-! ### Float instances -/

instance : NatCast Float := ⟨Float.ofNat⟩
instance : HasSqrt Float := ⟨Float.sqrt⟩
instance : HasAbs Float := ⟨Float.abs⟩
instance : HasTrig Float := ⟨Float.sin, Float.cos, Float.tanh, Float.cosh⟩

/-- `expm1` for `Float`: Lean's `Float` has no `expm1` binding.  Accurate composite:
    Taylor series for small `|x|`, `exp x - 1` otherwise.  Self-tested against `math.expm1`
    by the harness at start-up (op `selftest_expm1`). -/
def floatExpm1 (x : Float) : Float :=
  if Float.abs x < 1e-5 then
    x * (1.0 + x / 2.0 * (1.0 + x / 3.0 * (1.0 + x / 4.0)))
  else if Float.abs x < 0.5 then
    -- expm1 x = 2 sinh(x/2) exp(x/2): no cancellation
    2.0 * Float.sinh (x / 2.0) * Float.exp (x / 2.0)
  else Float.exp x - 1.0

instance : HasExp Float := ⟨Float.exp, floatExpm1⟩

/-! ### generic helpers -/

section
variable {α : Type}

/-- the literal `n` as a scalar -/
@[inline] def lit [NatCast α] (n : Nat) : α := (n : α)

/-- `p / q` as a scalar, e.g. `frac 1 1000` is the Python literal `1e-3` -/
@[inline] def frac [NatCast α] [Div α] (p q : Nat) : α := (p : α) / (q : α)

/-- sum of `f 0 … f (n-1)`, as a right fold over `List.ofFn` (bridged to `∑` by `List.sum_ofFn`) -/
@[inline] def vsum [Add α] [Zero α] {n : Nat} (f : Fin n → α) : α := (List.ofFn f).sum

/-- materialise a finite function in an array (identity semantically; avoids re-evaluation) -/
def memo {n : Nat} (f : Fin n → α) : Fin n → α :=
  let a := Array.ofFn f
  fun i => a[i.val]'(by simp [a])

theorem memo_eq {n : Nat} (f : Fin n → α) : memo f = f := by
  funext i; simp [memo]

def memo2 {n m : Nat} (f : Fin n → Fin m → α) : Fin n → Fin m → α :=
  let a := Array.ofFn (fun i => Array.ofFn (f i))
  fun i j => (a[i.val]'(by simp [a]))[j.val]'(by simp [a])

theorem memo2_eq {n m : Nat} (f : Fin n → Fin m → α) : memo2 f = f := by
  funext i j; simp [memo2]

@[inline] def max' [LT α] [DecidableLT α] (a b : α) : α := if a < b then b else a

end

end Mud

/-
  MudModel.Loop — the stopping rule and logging schedule of `simulate()`
  (`TrajectorySH` / `AdiabaticMD`: `continue_simulating`, `currently_interacting`, `trace`,
  `simulate`).  The nuclear/electronic dynamics are abstracted as the stream of positions
  `x_0, x_1, x_2, …` they produce: the stop rule reads nothing else.

      def continue_simulating(self):
          if self.force_quit: return False
          elif max_steps >= 0 and nsteps >= max_steps: return False
          elif time >= max_time or isclose(time, max_time, atol=1e-8, rtol=0): return False
          elif found_box: return currently_interacting()
          else:
              if currently_interacting(): found_box = True
              return True
-/
import MudModel.Num

namespace Mud.Loop
variable {α : Type}

/-- the `duration` dictionary -/
structure Limits (α : Type) where
  maxSteps : Int
  maxTime : α
  /-- `box_bounds`: per-dimension `(lo, hi)`, or `none` -/
  box : Option (List (α × α))

/-- the part of the trajectory state the stop rule reads or writes -/
structure St (α : Type) where
  nsteps : Nat
  time : α
  found : Bool        -- `duration["found_box"]`
  forceQuit : Bool

section
variable [Add α] [Sub α] [Neg α] [Div α] [NatCast α] [LT α] [DecidableLT α] [LE α] [DecidableLE α]

/-- `currently_interacting`: strictly inside the box in every dimension; `False` without a box -/
def interacting (box : Option (List (α × α))) (x : List α) : Bool :=
  match box with
  | none => false
  | some b => (List.zip b x).all (fun p => decide (p.1.1 < p.2) && decide (p.2 < p.1.2))

/-- `time >= max_time or np.isclose(time, max_time, atol=1e-8, rtol=0)` -/
def timeUp (time maxTime : α) : Bool :=
  decide (maxTime ≤ time) ||
    (decide (time - maxTime ≤ frac 1 100000000) && decide (-(frac 1 100000000) ≤ time - maxTime))

/-- `max_steps >= 0 and nsteps >= max_steps` -/
def stepsUp (maxSteps : Int) (n : Nat) : Bool := decide (0 ≤ maxSteps) && decide (maxSteps ≤ (n : Int))

/-- `continue_simulating`: returns (keep running?, new latch) -/
def continueSim (L : Limits α) (s : St α) (x : List α) : Bool × Bool :=
  if s.forceQuit then (false, s.found)
  else if stepsUp L.maxSteps s.nsteps then (false, s.found)
  else if timeUp s.time L.maxTime then (false, s.found)
  else if s.found then (interacting L.box x, true)
  else (true, interacting L.box x)

/-- result of a run: the logged (step index, time) pairs in order, the final state, and whether the
    supplied position stream ran out before the rule stopped the run -/
structure Run (α : Type) where
  log : List (Nat × α)
  final : St α
  ranOut : Bool

/-- `trace()`: log if `nsteps % trace_every == 0` -/
def traceIf (te : Nat) (s : St α) : List (Nat × α) :=
  if s.nsteps % te = 0 then [(s.nsteps, s.time)] else []

/-- the `while True` loop of `simulate`, one position of the stream per step -/
def loopGo (L : Limits α) (dt : α) (te : Nat) : St α → List (List α) → List (Nat × α) → Run α
  | s, [], acc => { log := acc, final := s, ranOut := true }
  | s, x :: xs, acc =>
    let s1 : St α := { s with time := s.time + dt, nsteps := s.nsteps + 1 }
    let (c, f) := continueSim L s1 x
    let s2 : St α := { s1 with found := f }
    if c then loopGo L dt te s2 xs (acc ++ traceIf te s2)
    else { log := acc ++ [(s2.nsteps, s2.time)], final := s2, ranOut := false }

/-- `simulate()` -/
def simulate (L : Limits α) (dt : α) (te : Nat) (restarting : Bool) (s0 : St α) (x0 : List α)
    (xs : List (List α)) : Run α :=
  let (c, f) := continueSim L s0 x0
  let s : St α := { s0 with found := f }
  if c then loopGo L dt te s xs (if restarting then [] else traceIf te s)
  else { log := [], final := s, ranOut := false }
end

end Mud.Loop

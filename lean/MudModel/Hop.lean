/-
  MudModel.Hop — the momentum jump of a surface hop.

  Mirrors `TrajectorySH.kinetic_energy`, `hop_allowed`, `rescale_component`, `hop_to_it`
  (trajectory_sh.py) for any number of dimensions `n`, any mass vector, any direction.
  `np.roots([a,b,c])` + `min(roots, key=abs)` is modelled by the closed form of the
  smaller-magnitude root (numerically stable variant `c/q`).
-/
import MudModel.Num

namespace Mud
variable {α : Type} {n : Nat}

section
variable [Add α] [Mul α] [Div α] [Zero α] [One α] [NatCast α]

/-- `0.5 * einsum('m,m,m', mass, v, v)` -/
def kinetic (m v : Fin n → α) : α := frac 1 2 * vsum (fun i => m i * v i * v i)

/-- `np.dot(d, d)` -/
def normSqV (d : Fin n → α) : α := vsum (fun i => d i * d i)

/-- `np.dot(a, b)` -/
def dotV (a b : Fin n → α) : α := vsum (fun i => a i * b i)

/-- `a = einsum('m,m,m', 1/mass, u, u)` -/
def quadA (m u : Fin n → α) : α := vsum (fun i => (1 / m i) * u i * u i)

/-- `b = 2 v.u` -/
def quadB (v u : Fin n → α) : α := lit 2 * dotV v u
end

section
variable [Add α] [Mul α] [Div α] [Zero α] [One α] [NatCast α] [HasSqrt α]

/-- `u = direction / np.linalg.norm(direction)` -/
def unitVec (d : Fin n → α) : Fin n → α :=
  let nrm := sqrt (normSqV d)
  fun i => d i / nrm
end

section
variable [Add α] [Sub α] [Mul α] [Div α] [Neg α] [Zero α] [One α] [NatCast α] [LT α]
  [DecidableLT α] [HasSqrt α]

/-- `hop_allowed(direction, dE)` : `dE > 0` or `b² > 4ac`, `c = -2 dE` -/
def hopAllowed (m v d : Fin n → α) (dE : α) : Bool :=
  if 0 < dE then true
  else
    let u := unitVec d
    let a := quadA m u
    let b := quadB v u
    let c := -(lit 2 * dE)
    decide (lit 4 * a * c < b * b)

/-- the smaller-magnitude root of `a s² + b s + c = 0` (needs `b² ≥ 4ac`, `a ≠ 0`).
    `q = -(b + sgn(b)√disc)/2`; roots are `q/a` and `c/q`; `|c/q| ≤ |q/a|`. -/
def smallRoot (a b c : α) : α :=
  if c < 0 ∨ 0 < c then
    let disc := b * b - lit 4 * a * c
    let r := sqrt disc
    let q := if b < 0 then -(b - r) / lit 2 else -(b + r) / lit 2
    c / q
  else 0

/-- the other root -/
def bigRoot (a b c : α) : α :=
  if c < 0 ∨ 0 < c then
    let disc := b * b - lit 4 * a * c
    let r := sqrt disc
    let q := if b < 0 then -(b - r) / lit 2 else -(b + r) / lit 2
    q / a
  else -b / a

/-- `rescale_component(direction, reduction)` : returns the new velocity -/
def rescale (m v d : Fin n → α) (reduction : α) : Fin n → α :=
  let u := unitVec d
  let a := quadA m u
  let b := quadB v u
  let c := -(lit 2 * reduction)
  let s := smallRoot a b c
  fun i => v i + s * (1 / m i) * u i

/-- outcome of `hop_to_it` -/
structure HopResult (α : Type) (n : Nat) where
  accepted : Bool
  state : Nat
  velocity : Fin n → α
  /-- `"hop"` (true) or `"frustrated_hop"` (false) is logged with these fields -/
  evFrom : Nat
  evTo : Nat

/-- `hop_to_it` : `energies` is the diagonal of the current Hamiltonian, `d` the rescale
    direction returned by `direction_of_rescale(source, target)` -/
def hopToIt {N : Nat} (m v d : Fin n → α) (energies : Fin N → α) (source target : Fin N) :
    HopResult α n :=
  let delV := energies target - energies source
  if hopAllowed m v d (-delV) then
    { accepted := true, state := target.val, velocity := rescale m v d (-delV),
      evFrom := source.val, evTo := target.val }
  else
    { accepted := false, state := source.val, velocity := v,
      evFrom := source.val, evTo := target.val }

end
end Mud

/-
  MudModel.Trace — the trace stores (`mudslide.tracer`).

  `YAMLTrace` keeps, per trace, a main log (index), page files `-log_0 … -log_{k}` and an event
  file, under a unique enumerated base name `base-u`.  The model keeps the directory as a list of
  `(u, Files)`; page files are created in index order, so the pages of one trace are a list.
  A file-system operation (`open` for write/append + write + close) is one atomic `Op`: this is the
  granularity the crash property (C15) is stated at.

  `collectOps` is the repaired order (new page written, truncating, *before* the index names it);
  `collectOpsPinned` is the originally pinned order (index first, then append).
-/
namespace Mud.Trace

/-- what `write_main_log` stores (the names are determined by `u` and the page indices) -/
structure MainRec where
  nlogs : Nat
  pitch : Nat
deriving DecidableEq, Repr

/-- the files of one trace -/
structure Files (σ ε : Type) where
  main : MainRec
  pages : List (List σ)
  events : List ε

/-- the fields of a `YAMLTrace` object that the operations read -/
structure YT where
  pitch : Nat
  logsize : Nat
  nlogs : Nat
deriving DecidableEq, Repr

/-- one atomic file operation of a trace -/
inductive Op (σ ε : Type) where
  | writeMain (r : MainRec)
  /-- `open(page i, "a")` + dump one snapshot: creates the page if it is the next index -/
  | appendPage (i : Nat) (x : σ)
  /-- `open(page i, "w")` + dump one snapshot: truncating create -/
  | writePage (i : Nat) (x : σ)
  | appendEvent (e : ε)

variable {σ ε : Type}

def listSet {β : Type} (l : List β) (i : Nat) (x : β) : List β :=
  if i < l.length then l.set i x else if i = l.length then l ++ [x] else l

/-- effect of one operation; `none` = the operation cannot happen (never the case in a run) -/
def Files.apply (f : Files σ ε) : Op σ ε → Option (Files σ ε)
  | .writeMain r => some { f with main := r }
  | .appendPage i x =>
    if h : i < f.pages.length then some { f with pages := f.pages.set i (f.pages[i] ++ [x]) }
    else if i = f.pages.length then some { f with pages := f.pages ++ [[x]] }
    else none
  | .writePage i x =>
    if i ≤ f.pages.length then some { f with pages := listSet f.pages i [x] } else none
  | .appendEvent e => some { f with events := f.events ++ [e] }

def Files.applyAll (f : Files σ ε) : List (Op σ ε) → Option (Files σ ε)
  | [] => some f
  | o :: os => (f.apply o).bind (fun f' => f'.applyAll os)

/-- a freshly created trace (`YAMLTrace.__init__`, create branch): empty page 0, index written -/
def createdYT (pitch : Nat) : YT := { pitch := pitch, logsize := 0, nlogs := 1 }

def createdFiles (pitch : Nat) : Files σ ε :=
  { main := { nlogs := 1, pitch := pitch }, pages := [[]], events := [] }

/-- `target_log != nlogs - 1`: the next snapshot opens a new page -/
def rolls (t : YT) : Bool := decide (t.logsize / t.pitch ≠ t.nlogs - 1)

/-- the object state after `collect` -/
def collectNext (t : YT) : YT :=
  if rolls t then { t with nlogs := t.nlogs + 1, logsize := t.logsize + 1 }
  else { t with logsize := t.logsize + 1 }

/-- `collect(snapshot)`: the file operations it performs, in order (repaired order: the new page is
    written, truncating, before the index names it) -/
def collectOps (t : YT) (x : σ) : List (Op σ ε) :=
  if rolls t then [.writePage t.nlogs x, .writeMain { nlogs := t.nlogs + 1, pitch := t.pitch }]
  else [.appendPage (t.nlogs - 1) x]

/-- the originally pinned order: bookkeeping, rewrite the index, then append to the new page -/
def collectOpsPinned (t : YT) (x : σ) : List (Op σ ε) :=
  if rolls t then [.writeMain { nlogs := t.nlogs + 1, pitch := t.pitch }, .appendPage t.nlogs x]
  else [.appendPage (t.nlogs - 1) x]

/-- errors of the load branch -/
inductive LoadErr where
  | fileNotFound   -- the index names a page that does not exist
  | emptyPage      -- `len(yaml.safe_load(empty file))` = `len(None)` : TypeError
deriving DecidableEq, Repr

/-- `YAMLTrace(load_main_log=…)`: sizes recomputed from disk -/
def load (f : Files σ ε) : Except LoadErr YT :=
  match f.pages[f.main.nlogs - 1]? with
  | none => .error .fileNotFound
  | some p =>
    if p.isEmpty then .error .emptyPage
    else .ok { pitch := f.main.pitch, nlogs := f.main.nlogs,
               logsize := f.main.pitch * (f.main.nlogs - 1) + p.length }

/-- `__iter__`: the pages named by the object, in order -/
def iter (t : YT) (f : Files σ ε) : List σ := (f.pages.take t.nlogs).flatten

/-- `__len__` -/
def len (t : YT) : Nat := t.logsize

/-- Python index normalisation shared by both stores: negative indices count from the end;
    `none` = `IndexError` -/
def normIndex (n : Nat) (i : Int) : Option Nat :=
  let j : Int := if i < 0 then (n : Int) + i else i
  if j < 0 ∨ j ≥ n then none else some j.toNat

/-- `YAMLTrace.__getitem__(i)`: page `k // pitch`, offset `k - page*pitch`; `none` = `IndexError` -/
def getitem (t : YT) (f : Files σ ε) (i : Int) : Option σ :=
  (normIndex t.logsize i).bind (fun k =>
    let page := k / t.pitch
    let off := k - page * t.pitch
    (f.pages[page]?).bind (fun p => p[off]?))

/-- `InMemoryTrace.__getitem__`: a Python list -/
def memGetitem (l : List σ) (i : Int) : Option σ :=
  (normIndex l.length i).bind (fun k => l[k]?)

/-! ### the directory: several traces side by side -/

abbrev Dir (σ ε : Type) := List (Nat × Files σ ε)

def Dir.find (d : Dir σ ε) (u : Nat) : Option (Files σ ε) := (d.find? (·.1 == u)).map (·.2)

def Dir.put (d : Dir σ ε) (u : Nat) (f : Files σ ε) : Dir σ ε :=
  if d.any (·.1 == u) then d.map (fun e => if e.1 == u then (u, f) else e) else d ++ [(u, f)]

/-- `find_unique_name(always_enumerate=True)`: the smallest `u` whose main log does not exist.
    `fuel` bounds the search (the directory has finitely many entries). -/
def uniqueFrom (d : Dir σ ε) : Nat → Nat → Nat
  | 0, u => u
  | fuel + 1, u => if d.any (·.1 == u) then uniqueFrom d fuel (u + 1) else u

def uniqueName (d : Dir σ ε) : Nat := uniqueFrom d (d.length + 1) 0

/-- `clone()`: a new trace under a fresh name holding copies of the pages the object names -/
def clone (d : Dir σ ε) (t : YT) (f : Files σ ε) : Nat × YT × Files σ ε :=
  (uniqueName d, t,
   { main := { nlogs := t.nlogs, pitch := t.pitch }, pages := f.pages.take t.nlogs, events := f.events })

end Mud.Trace

/-
  MudModel.Mat — dense matrices as *data* (`Tab`: a row-major array with its size proof) together with
  the handful of operations the code uses (`np.dot`, `.T`, `.conj()`, `np.diag`, elementwise `*`).

  Every operation is specified through `Tab.get` and `Tab.ofFn` (`get_ofFn : (ofFn f).get i j = f i j`),
  so at `ℝ`/`ℂ` a `Tab` is just the function `get`; at `Float` the entries are computed once.
  (A function-valued definition would be re-evaluated at every index by the compiler, which makes
  iterated schemes such as RK4 exponentially slow.)
-/
import MudModel.Cx

namespace Mud
variable {β : Type} {n m k : Nat}

structure Tab (β : Type) (n m : Nat) where
  arr : Array β
  size_eq : arr.size = n * m

namespace Tab

theorem idx_lt {i j : Nat} (hi : i < n) (hj : j < m) : i * m + j < n * m := by
  calc i * m + j < i * m + m := by omega
    _ = (i + 1) * m := by rw [Nat.add_mul, Nat.one_mul]
    _ ≤ n * m := Nat.mul_le_mul_right m hi

def get (t : Tab β n m) (i : Fin n) (j : Fin m) : β :=
  t.arr[i.val * m + j.val]'(by rw [t.size_eq]; exact idx_lt i.isLt j.isLt)

theorem pos_of_lt_mul {p : Nat} (hp : p < n * m) : 0 < m := by
  rcases Nat.eq_zero_or_pos m with h | h
  · subst h; simp at hp
  · exact h

def ofFn (f : Fin n → Fin m → β) : Tab β n m :=
  ⟨Array.ofFn (n := n * m) (fun p =>
      f ⟨p.val / m, Nat.div_lt_of_lt_mul (Nat.lt_of_lt_of_eq p.isLt (Nat.mul_comm n m))⟩
        ⟨p.val % m, Nat.mod_lt _ (pos_of_lt_mul p.isLt)⟩),
   by simp⟩

theorem get_ofFn (f : Fin n → Fin m → β) (i : Fin n) (j : Fin m) : (ofFn f).get i j = f i j := by
  unfold get ofFn
  simp only [Array.getElem_ofFn]
  have hj := j.isLt
  have hm : 0 < m := by omega
  congr 1
  · apply Fin.ext
    simp only
    rw [Nat.mul_comm, Nat.mul_add_div hm, Nat.div_eq_of_lt hj]; simp
  · apply Fin.ext
    simp only
    rw [Nat.mul_comm, Nat.mul_add_mod, Nat.mod_eq_of_lt hj]

end Tab

abbrev M (β : Type) (n m : Nat) := Tab β n m

/-- a vector as data (same reason as `Tab`: a stored `Fin n → β` closure is re-evaluated at every index) -/
structure Vec (β : Type) (n : Nat) where
  arr : Array β
  size_eq : arr.size = n

namespace Vec
def get (v : Vec β n) (i : Fin n) : β := v.arr[i.val]'(by rw [v.size_eq]; exact i.isLt)
def ofFn (f : Fin n → β) : Vec β n := ⟨Array.ofFn f, by simp⟩
@[simp] theorem get_ofFn (f : Fin n → β) (i : Fin n) : (ofFn f).get i = f i := by
  unfold get ofFn; simp
end Vec

/-- `np.dot(A, B)` -/
def mmul [Add β] [Mul β] [Zero β] (A : M β n m) (B : M β m k) : M β n k :=
  Tab.ofFn (fun i j => vsum (fun l => A.get i l * B.get l j))

/-- `A.T` -/
def mT (A : M β n m) : M β m n := Tab.ofFn (fun i j => A.get j i)

/-- `A.T.conj()` -/
def mH {α : Type} [Neg α] (A : M (Cx α) n m) : M (Cx α) m n := Tab.ofFn (fun i j => Cx.conj (A.get j i))

/-- `np.diag(v)` -/
def mdiag [Zero β] (v : Fin n → β) : M β n n := Tab.ofFn (fun i j => if i = j then v i else 0)

/-- elementwise product `A * B` -/
def mhad [Mul β] (A B : M β n m) : M β n m := Tab.ofFn (fun i j => A.get i j * B.get i j)

def madd [Add β] (A B : M β n m) : M β n m := Tab.ofFn (fun i j => A.get i j + B.get i j)
def msub [Sub β] (A B : M β n m) : M β n m := Tab.ofFn (fun i j => A.get i j - B.get i j)

/-- real matrix as complex -/
def mofReal {α : Type} [Zero α] (A : M α n m) : M (Cx α) n m := Tab.ofFn (fun i j => Cx.ofReal (A.get i j))

/-- scale a complex matrix by a real scalar -/
def msmul {α : Type} [Mul α] (s : α) (A : M (Cx α) n m) : M (Cx α) n m :=
  Tab.ofFn (fun i j => Cx.smul s (A.get i j))

/-- trace -/
def mtrace [Add β] [Zero β] (A : M β n n) : β := vsum (fun i => A.get i i)

end Mud

/-
  MudModel.Generators — initial-condition generators (`mudslide.batch`, `mudslide.math`).
  The standard-normal draws `z` are parameters (numpy's generator is external);
  `rng.normal(loc, scale)` is `loc + scale * z`.
-/
import MudModel.Hop

namespace Mud
variable {α : Type} {n : Nat}

section
variable [Add α] [Mul α] [Div α] [Zero α] [One α] [NatCast α] [HasSqrt α]

/-- unscaled Boltzmann momenta: `p_i = 0 + sqrt(kT m_i) * z_i` -/
def boltzmannRaw (m z : Fin n → α) (kt : α) : Fin n → α :=
  fun i => 0 + sqrt (kt * m i) * z i

/-- `avg_KE = 0.5 * dot(p**2, 1/mass) / size` -/
def avgKE (p m : Fin n → α) : α :=
  frac 1 2 * vsum (fun i => p i * p i * (1 / m i)) / (n : α)

/-- scaled momenta: `p *= sqrt(0.5 kT / avg_KE)` -/
def boltzmannScaled (m z : Fin n → α) (kt : α) : Fin n → α :=
  let p := boltzmannRaw m z kt
  let scal := sqrt (frac 1 2 * kt / avgKE p m)
  fun i => p i * scal

/-- `TrajGenNormal`: position and momentum samples, deviations `sigma/2` and `1/sigma` -/
def normalSample (pos mom sigma zx zk : Fin n → α) : (Fin n → α) × (Fin n → α) :=
  (fun i => pos i + frac 1 2 * sigma i * zx i, fun i => mom i + 1 / sigma i * zk i)
end

/-- `kskip`: any negative momentum component -/
def kskip [Zero α] [LT α] [DecidableLT α] (k : Fin n → α) : Bool :=
  (List.ofFn k).any (fun x => decide (x < 0))

/-! ### `numpy.random.SeedSequence.spawn` bookkeeping -/

structure SeedSeq where
  entropy : Nat
  spawnKey : List Nat
  nSpawned : Nat
deriving DecidableEq, Repr

/-- `ss.spawn(k)`: children keys `spawn_key + (n_children_spawned + i,)`; the counter advances -/
def SeedSeq.spawn (s : SeedSeq) (k : Nat) : List SeedSeq × SeedSeq :=
  ((List.range k).map (fun i =>
      { entropy := s.entropy, spawnKey := s.spawnKey ++ [s.nSpawned + i], nSpawned := 0 }),
   { s with nSpawned := s.nSpawned + k })

/-! ### the generator loops (`__call__(nsamples)`) -/

/-- `TrajGenConst.__call__`: `seedseqs = self.seed_sequence.spawn(nsamples)`, then one tuple
    `(position, momentum, initial_state, seedseqs[i])` per `i` -/
def constGen {β : Type} (ic : β) (s : SeedSeq) (k : Nat) : List (β × SeedSeq) × SeedSeq :=
  ((s.spawn k).1.map (fun c => (ic, c)), (s.spawn k).2)

/-- `TrajGenNormal.__call__`: draw `i` (a pair of standard-normal vectors, taken from the generator's own stream in
    order) is turned into a sample; a sample with a negative momentum component is skipped — `continue` — and its
    seed slot `seedseqs[i]` is then simply not used -/
def normalGen [Add α] [Mul α] [Div α] [Zero α] [One α] [NatCast α] [LT α] [DecidableLT α]
    (pos mom sigma : Fin n → α) (draws : List ((Fin n → α) × (Fin n → α))) (s : SeedSeq) (k : Nat) :
    List (((Fin n → α) × (Fin n → α)) × SeedSeq) × SeedSeq :=
  (((draws.take k).zip (s.spawn k).1).filterMap (fun dc =>
      let xk := normalSample pos mom sigma dc.1.1 dc.1.2
      if kskip xk.2 then none else some (xk, dc.2)),
   (s.spawn k).2)

/-- `TrajGenBoltzmann.__call__`: every draw yields -/
def boltzmannGen [Add α] [Mul α] [Div α] [Zero α] [One α] [NatCast α] [HasSqrt α]
    (x m : Fin n → α) (kt : α) (scale : Bool) (draws : List (Fin n → α)) (s : SeedSeq) (k : Nat) :
    List (((Fin n → α) × (Fin n → α)) × SeedSeq) × SeedSeq :=
  (((draws.take k).zip (s.spawn k).1).map (fun dc =>
      ((x, if scale then boltzmannScaled m dc.1 kt else boltzmannRaw m dc.1 kt), dc.2)),
   (s.spawn k).2)

end Mud

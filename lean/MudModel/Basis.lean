/-
  MudModel.Basis — from a diabatic potential to adiabatic quantities
  (`DiabaticModel_` / `AdiabaticModel_`: `_compute_basis_states` sign fix, `_compute_force`,
  `_compute_force_matrix`, `_compute_derivative_coupling`).  `numpy.linalg.eigh` is a parameter:
  the model receives its output `(energies, coeff)`.
-/
import MudModel.Mat

namespace Mud
variable {α : Type} {N n : Nat}

section
variable [Add α] [Sub α] [Mul α] [Div α] [Neg α] [Zero α] [One α] [NatCast α] [LT α] [DecidableLT α]

/-- `np.dot(coeff[:, mo], reference[:, mo])` -/
def colOverlap (A B : M α N N) (mo : Fin N) : α := vsum (fun r => A.get r mo * B.get r mo)

/-- the sign fix of `_compute_basis_states`: flip every column whose overlap with the reference is negative -/
def signFix (coeff ref : M α N N) : M α N N :=
  Tab.ofFn (fun r mo => if colOverlap coeff ref mo < 0 then coeff.get r mo * (-1) else coeff.get r mo)

/-- the eigenvector sets a trajectory tracks along a path of positions: `fresh` are the sets `eigh` returns at the
    successive positions; each is sign-fixed against the set tracked at the previous position
    (`model.update(x, electronics=previous)` step after step) -/
def track (ref0 : M α N N) : List (M α N N) → List (M α N N)
  | [] => []
  | c :: cs => signFix c ref0 :: track (signFix c ref0) cs

/-- `Cᵀ dV_x C` -/
def rotated (dV : Fin n → M α N N) (coeff : M α N N) (x : Fin n) : M α N N :=
  mmul (mmul (mT coeff) (dV x)) coeff

/-- `_compute_force`: `force[i, x] = -cᵢᵀ dV_x cᵢ` -/
def forceVec (dV : Fin n → M α N N) (coeff : M α N N) (i : Fin N) (x : Fin n) : α :=
  -((rotated dV coeff x).get i i)

/-- `_compute_force_matrix`: `F[p,q,x] = -(Cᵀ dV_x C)[p,q]` -/
def forceMatrix (dV : Fin n → M α N N) (coeff : M α N N) (p q : Fin N) (x : Fin n) : α :=
  -((rotated dV coeff x).get p q)

/-- the energy difference used as denominator, with the small-gap guard
    `if abs(dE) < guard: dE = copysign(guard, dE)` -/
def guardedGap [HasAbs α] (guard dE : α) : α :=
  if HasAbs.abs dE < guard then (if dE < 0 then -guard else guard) else dE

/-- `_compute_derivative_coupling` (adiabatic representation):
    `d[p,q,x] = (Cᵀ dV_x C)[p,q] / (E_q - E_p)` for `p < q`, `/ -(E_p - E_q)` for `p > q`, zero diagonal -/
def derivCoupling [HasAbs α] (guard : α) (dV : Fin n → M α N N) (coeff : M α N N) (E : Fin N → α)
    (p q : Fin N) (x : Fin n) : α :=
  if p = q then 0
  else if p.val < q.val then (rotated dV coeff x).get p q / guardedGap guard (E q - E p)
  else (rotated dV coeff x).get p q / (-(guardedGap guard (E p - E q)))

/-- the same without zeroing the diagonal: the originally pinned `AdiabaticModel_` -/
def derivCouplingPinnedAdiabatic [HasAbs α] (guard : α) (dV : Fin n → M α N N) (coeff : M α N N)
    (E : Fin N → α) (p q : Fin N) (x : Fin n) : α :=
  if p = q then (rotated dV coeff x).get p q else derivCoupling guard dV coeff E p q x
end

end Mud

/-
  MudModel.SpawnStack — `mudslide.even_sampling.SpawnStack` and the weight flow of
  `EvenSamplingTrajectory.hopper / hop_to_it`.

  A sample tree node is `{zeta, dw, children, spawn_size}`.  A stack object looks only at its own
  level (`zeta`, `dw` of `sample_stack[i]`) and hands `children` of the first crossed sample to the
  stacks it spawns.
-/
import MudModel.Num

namespace Mud.Spawn
variable {α : Type}

/-- one node of a sample tree -/
inductive Tree (α : Type) where
  | node (zeta dw : α) (spawnSize : Nat) (children : List (Tree α))

def Tree.zeta : Tree α → α | .node z _ _ _ => z
def Tree.dw : Tree α → α | .node _ d _ _ => d
def Tree.spawnSize : Tree α → Nat | .node _ _ s _ => s
def Tree.children : Tree α → List (Tree α) | .node _ _ _ c => c

/-- a `SpawnStack` object -/
structure Stack (α : Type) where
  samples : List (Tree α)
  base : α                 -- base_weight
  marginal : α             -- marginal_weight
  lastDw : α               -- last_dw
  lastIdx : Option Nat     -- index of `last_stack` in `samples` (`{}` initially)
  izeta : Nat
  zeta : α                 -- zeta_

section
variable [Add α] [Sub α] [Mul α] [Div α] [Zero α] [One α] [NatCast α] [LT α] [DecidableLT α]

def zetas (s : List (Tree α)) : List α := s.map Tree.zeta
def dws (s : List (Tree α)) : List α := s.map Tree.dw

/-- `marginal_weights[i] = 1 - cumsum(dw)[i-1]` -/
def marginalWeight (d : List α) (i : Nat) : α := 1 - (d.take i).sum

/-- `SpawnStack.__init__` -/
def Stack.init (samples : List (Tree α)) (weight : α) : Stack α :=
  { samples := samples, base := weight, marginal := 1,
    lastDw := match samples with | [] => 0 | t :: _ => t.dw,
    lastIdx := none, izeta := 0, zeta := 0 - 1 }

/-- how far `next_zeta(a)` advances: past every threshold `< a`, starting at `izeta` -/
def advanceTo (z : List α) (i : Nat) (a : α) : Nat :=
  i + ((z.drop i).takeWhile (fun x => decide (x < a))).length

/-- `next_zeta(current_value)` for a non-empty sample stack -/
def Stack.nextZeta (st : Stack α) (a : α) : Stack α :=
  let n := st.samples.length
  let i' := advanceTo (zetas st.samples) st.izeta a
  let moved := decide (i' ≠ st.izeta)
  { st with
    lastDw := if moved then (((dws st.samples).drop st.izeta).take (i' - st.izeta)).sum else st.lastDw
    lastIdx := if moved then some st.izeta else st.lastIdx
    marginal := if i' ≠ n then marginalWeight (dws st.samples) i' else 0
    izeta := i'
    zeta := match (zetas st.samples)[i']? with | some z => z | none => lit 10 }

/-- `weight()` -/
def Stack.weight (st : Stack α) : α := st.base * st.marginal

/-- `spawn_size()` -/
def Stack.spawnSize (st : Stack α) : Nat :=
  match st.lastIdx.bind (fun i => st.samples[i]?) with
  | some t => t.spawnSize
  | none => 1

/-- `spawn(reweight)` for a non-empty stack: `none` = the "hop with no differential weight" exception -/
def Stack.spawn (st : Stack α) (reweight : α) : Option (Stack α) :=
  if st.lastDw < 0 ∨ 0 < st.lastDw then
    let kids := match st.lastIdx.bind (fun i => st.samples[i]?) with
      | some t => t.children
      | none => []
    some (Stack.init kids (st.base * st.lastDw * reweight))
  else none

/-- weights of the children spawned at one crossing, for branching ratios `r` over the targets
    (active state removed) and `nspawn` copies per target: `base * last_dw * ((1/nspawn) * r_t)` -/
def childWeights (st : Stack α) (r : List α) (nspawn : Nat) : List α :=
  r.flatMap (fun rt => List.replicate nspawn (st.base * st.lastDw * (1 / (nspawn : α) * rt)))
end

/-! ### `from_quadrature` / `unravel`: the flattened forest is the tensor product of the level rules -/

/-- flattened points and weights of the forest built from per-level rules `(node, weight)`:
    points = Cartesian product, weights = products (the specification `unravel` is compared with) -/
def tensor [Mul α] [One α] : List (List (α × α)) → List (List α × α)
  | [] => [([], 1)]
  | L :: rest => L.flatMap (fun zw => (tensor rest).map (fun pw => (zw.1 :: pw.1, zw.2 * pw.2)))

/-- `SpawnStack.from_quadrature`: one tree level per rule, every node carrying the forest of the
    remaining levels; `mcsamples` is the spawn size of the first level only -/
def fromRules : List (List (α × α)) → List Nat → List (Tree α)
  | [], _ => []
  | L :: rest, sizes =>
    L.map (fun zw => Tree.node zw.1 zw.2 (sizes.headD 1) (fromRules rest sizes.tail))

/-! ### the spawned family as a tree of (start weight, final weight, children) -/

inductive Fam (α : Type) where
  | node (startWeight finalWeight : α) (kids : List (Fam α))

def Fam.start : Fam α → α | .node w _ _ => w

end Mud.Spawn

/-
  MudModel.Batch — batch outcome statistics.
  Mirrors `Trace_.outcome` (per-trace indicator from the last snapshot), `TraceManager.outcome`
  (weighted mean), `TraceManager.counts` (unweighted sum), the hop-count histogram printed by
  `TraceManager.summarize`, and the row printed by `python -m mudslide -o averaged`.
-/
import MudModel.Num

namespace Mud
variable {α : Type}

/-- what the statistics read from one trace: its weight, and from its **last** snapshot the number of
    dimensions, the active state and the first coordinate; plus the number of logged hops -/
structure TraceEnd (α : Type) where
  weight : α
  ndim : Nat
  active : Nat
  pos0 : α
  nhops : Nat

section
variable [Add α] [Mul α] [Div α] [Zero α] [One α] [LT α] [DecidableLT α]

/-- side of the origin: `0 if position < 0.0 else 1` -/
def sideOf (x : α) : Nat := if x < 0 then 0 else 1

/-- `Trace_.outcome()[s, side]` -/
def indicator (t : TraceEnd α) (s side : Nat) : α :=
  if t.ndim ≠ 1 then 0
  else if t.active = s ∧ sideOf t.pos0 = side then 1 else 0

/-- `sum(t.weight for t in traces)` -/
def weightNorm (ts : List (TraceEnd α)) : α := (ts.map (·.weight)).sum

/-- `TraceManager.outcome()[s, side]` -/
def outcome (ts : List (TraceEnd α)) (s side : Nat) : α :=
  (ts.map (fun t => t.weight * indicator t s side)).sum / weightNorm ts

/-- `TraceManager.counts()[s, side]` -/
def counts (ts : List (TraceEnd α)) (s side : Nat) : α :=
  (ts.map (fun t => indicator t s side)).sum

/-- entry `i` of the hop-count histogram of `summarize` -/
def hopHist (ts : List (TraceEnd α)) (i : Nat) : α :=
  ((ts.filter (fun t => t.nhops == i)).map (·.weight)).sum / weightNorm ts

/-- the numbers of the driver row after the momentum: the table row-major (`np.nditer(outcomes)`) -/
def driverRow (ts : List (TraceEnd α)) (nst : Nat) : List α :=
  (List.range nst).flatMap (fun s => [outcome ts s 0, outcome ts s 1])
end

end Mud

/-
  MudModel.Poisson — `mudslide.math.poisson_prob_scale`

      np.where(np.absolute(x) < 1e-3, 1 - x/2 + x**2/6 - x**3/24 + x**4/120, -np.expm1(-x)/x)

  (real and complex argument; elementwise on arrays = `List.map` of the scalar function).
  The fifth term `x**4/120` is the repaired code (fix: commit in /repo, see known_findings.txt);
  `poissonSeries4` is the four-term series of the originally pinned tree, kept so that the
  theorem `Mud.C20.pinned_series_not_monotone` can state what was wrong with it.
-/
import MudModel.Cx

namespace Mud
variable {α : Type}

section real
variable [Add α] [Sub α] [Mul α] [Div α] [Neg α] [One α] [NatCast α] [LT α] [DecidableLT α]
  [HasAbs α] [HasExp α]

/-- four-term series of the originally pinned tree -/
def poissonSeries4 (x : α) : α :=
  1 - x / lit 2 + x * x / lit 6 - x * x * x / lit 24

/-- five-term series (repaired code) -/
def poissonSeries (x : α) : α :=
  1 - x / lit 2 + x * x / lit 6 - x * x * x / lit 24 + x * x * x * x / lit 120

/-- closed-form branch `-expm1(-x)/x` -/
def poissonClosed (x : α) : α := -(expm1 (-x)) / x

/-- the switch `|x| < 1e-3` -/
def poissonSmall (x : α) : Bool := decide (HasAbs.abs x < frac 1 1000)

/-- `poisson_prob_scale` for a real scalar -/
def poissonScale (x : α) : α :=
  if poissonSmall x then poissonSeries x else poissonClosed x

/-- the originally pinned variant (four-term series) -/
def poissonScalePinned (x : α) : α :=
  if poissonSmall x then poissonSeries4 x else poissonClosed x

end real

section complex
variable [Add α] [Sub α] [Mul α] [Div α] [Neg α] [Zero α] [One α] [NatCast α] [LT α]
  [DecidableLT α] [HasSqrt α] [HasExp α] [HasTrig α]

/-- complex division `a / b` -/
def Cx.div (a b : Cx α) : Cx α :=
  let d := b.re * b.re + b.im * b.im
  ⟨(a.re * b.re + a.im * b.im) / d, (a.im * b.re - a.re * b.im) / d⟩

/-- divide a complex number by a real scalar -/
def Cx.divR (a : Cx α) (s : α) : Cx α := ⟨a.re / s, a.im / s⟩

/-- `expm1` of a complex number: `e^a cos b - 1 + i e^a sin b`, with the real part written as
    `expm1 a · cos b - 2 sin²(b/2)` to avoid cancellation (what numpy's `nc_expm1` does). -/
def Cx.expm1 (z : Cx α) : Cx α :=
  let s := sin (z.im / lit 2)
  ⟨HasExp.expm1 z.re * cos z.im - lit 2 * s * s, HasExp.exp z.re * sin z.im⟩

def poissonSeriesC (x : Cx α) : Cx α :=
  let one : Cx α := ⟨1, 0⟩
  one - x.divR (lit 2) + (x * x).divR (lit 6) - (x * x * x).divR (lit 24)
    + (x * x * x * x).divR (lit 120)

def poissonSeries4C (x : Cx α) : Cx α :=
  let one : Cx α := ⟨1, 0⟩
  one - x.divR (lit 2) + (x * x).divR (lit 6) - (x * x * x).divR (lit 24)

def poissonClosedC (x : Cx α) : Cx α := Cx.div (-(Cx.expm1 (-x))) x

def poissonSmallC (x : Cx α) : Bool := decide (sqrt (Cx.normSq x) < frac 1 1000)

/-- `poisson_prob_scale` for a complex scalar -/
def poissonScaleC (x : Cx α) : Cx α :=
  if poissonSmallC x then poissonSeriesC x else poissonClosedC x

def poissonScalePinnedC (x : Cx α) : Cx α :=
  if poissonSmallC x then poissonSeries4C x else poissonClosedC x

end complex
end Mud

/-
  MudModel.Clone — `TrajectorySH.__deepcopy__ / clone` and `AdiabaticMD.__deepcopy__ / clone`
  as operations on a store of attribute → location bindings, and the order in which random
  thresholds are consumed (`draw_new_zeta`).

      shallow_only = ["queue"]
      for k, v in self.__dict__.items():
          setattr(result, k, deepcopy(v, memo) if k not in shallow_only else v)        # repaired
          setattr(result, k, deepcopy(v, memo) if v not in shallow_only else copy(v))  # originally pinned
-/
import MudModel.Hopping

namespace Mud.Clone

abbrev Loc := Nat

/-- an object: its attributes and the store location each one refers to -/
structure Obj where
  fields : List (String × Loc)

/-- kinds of attribute values, as far as `v not in ["queue"]` is concerned -/
inductive Val where
  | array        -- numpy array: `v == "queue"` is elementwise, its truth value raises ValueError
  | str (s : String)
  | other        -- numbers, None, objects without a special `__eq__`
deriving DecidableEq

/-- repaired `__deepcopy__`: attributes named in `shallow` keep the original's location (shared),
    every other attribute is bound to a fresh copy `fresh l` -/
def cloneObj (o : Obj) (shallow : List String) (fresh : Loc → Loc) : Obj :=
  ⟨o.fields.map (fun kl => if shallow.contains kl.1 then kl else (kl.1, fresh kl.2))⟩

/-- the test of the originally pinned code, evaluated on the VALUE: `v not in shallow_only`;
    `none` = the `ValueError` numpy raises for an array -/
def pinnedTest (v : Val) (shallow : List String) : Option Bool :=
  match v with
  | .array => if shallow.isEmpty then some true else none
  | .str s => some (!shallow.contains s)
  | .other => some true

/-- originally pinned `__deepcopy__` over the attribute values: fails as soon as an array is met -/
def pinnedClone (vals : List Val) (shallow : List String) : Option (List Bool) :=
  vals.mapM (fun v => pinnedTest v shallow)

def locs (o : Obj) : List Loc := o.fields.map (·.2)

/-- the first `k` thresholds a trajectory uses: the user list first, then the generator's stream -/
def drawMany {β : Type} : Nat → List β → List β → List β
  | 0, _, _ => []
  | k + 1, zl, stream =>
    match drawZeta zl stream with
    | some (z, zl', stream') => z :: drawMany k zl' stream'
    | none => []

end Mud.Clone

/-
  MudModel.Events — bookkeeping of hop events against the logged active state over a whole run with every
  step logged (`trace_every = 1`): `simulate` logs a snapshot (time, active) at the start of a step, the step
  may attempt one hop (`hop_to_it`: accepted → `hop` event and the active state changes; rejected →
  `frustrated_hop` event), then time advances.
-/
import MudModel.Num

namespace Mud.Events

/-- what happens in one step: no attempt, or an attempt at `target` that is accepted or rejected -/
inductive Attempt where
  | none
  | hop (target : Nat) (accepted : Bool)
deriving DecidableEq, Repr

/-- a logged event: kind (`true` = hop, `false` = frustrated_hop), step index (time = t0 + index·dt), from, to -/
structure Event where
  isHop : Bool
  step : Nat
  src : Nat
  dst : Nat
deriving DecidableEq, Repr

/-- run `attempts` from step `k` in active state `a`: returns the active state logged at steps `k, k+1, …`
    (one more than the number of attempts) and the events in the order they are recorded -/
def run : Nat → Nat → List Attempt → List Nat × List Event
  | _, a, [] => ([a], [])
  | k, a, att :: rest =>
    match att with
    | .none =>
      let r := run (k + 1) a rest
      (a :: r.1, r.2)
    | .hop t true =>
      let r := run (k + 1) t rest
      (a :: r.1, ⟨true, k, a, t⟩ :: r.2)
    | .hop t false =>
      let r := run (k + 1) a rest
      (a :: r.1, ⟨false, k, a, t⟩ :: r.2)

end Mud.Events

/-
  MudModel.Collapse — the A-FSSH collapse (`AugmentedFSSH.gamma_collapse` and the collapse loop of
  `AugmentedFSSH.surface_hopping`).

  `gammaCollapse` follows the code line by line: shifted diagonals of the moments and of the force matrix relative
  to the active state `k`, the `np.where(|ddP| == 0, 1e-10, ddP)` guard, the sign factor `np.sign(ddR/ddP)`,
  the dot product over the nuclear dimensions, the active entry forced to zero, the factor `dt/2`.
  `collapseScan` is the loop over the other states: one random number per state, in index order, a collapse whenever
  `e < gamma_i`; every collapse resets ρ to the pure ACTIVE state, zeroes both moments and records an event.
-/
import MudModel.AFSSH

namespace Mud
variable {α : Type} {N n : Nat}

section
variable [Add α] [Sub α] [Mul α] [Div α] [Neg α] [Zero α] [One α] [NatCast α] [HasAbs α] [LT α] [DecidableLT α]

/-- `np.sign` -/
def sgn (x : α) : α := if 0 < x then 1 else if x < 0 then -1 else 0

/-- `gamma_collapse`: `R x i`, `P x i` are the real parts of the diagonal moments `delR[x,i,i]`, `delP[x,i,i]`,
    `F i x` the diagonal of the force matrix `force_matrix()[i,i,x]` -/
def gammaCollapse (k : Fin N) (R P : Fin n → Fin N → α) (F : Fin N → Fin n → α) (dt : α) : Fin N → α :=
  fun i =>
    if i = k then frac 1 2 * 0 * dt
    else
      let term : Fin n → α := fun x =>
        let ddR := R x k - R x i
        let ddP0 := P x k - P x i
        -- `np.where(np.abs(ddP) == 0.0, 1e-10, ddP)` (order comparison: `|x| == 0` iff not `0 < |x|`, NaN aside)
        let ddP := if 0 < HasAbs.abs ddP0 then ddP0 else frac 1 10000000000
        let ddF := F k x - F i x
        ddF * (ddR * sgn (ddR / ddP))
      frac 1 2 * vsum term * dt
end

/-- one recorded collapse event -/
structure CollapseEvent (α : Type) where
  removed : Nat
  gamma : α
deriving Repr

section
variable [LT α] [DecidableLT α]

/-- the loop `for i in range(nstates): if i == state: continue; e = random(); if e < gamma[i]: collapse` over the
    states `is` (in order) with the random numbers `es` drawn for them; returns the recorded events -/
def collapseScan (gamma : Nat → α) : List Nat → List α → List (CollapseEvent α)
  | i :: is, e :: es => (if e < gamma i then [⟨i, gamma i⟩] else []) ++ collapseScan gamma is es
  | _, _ => []

/-- the states visited by the loop: all but the active one, in index order -/
def otherStates (N k : Nat) : List Nat := (List.range N).filter (· ≠ k)
end

/-- state touched by the collapse step -/
structure CollapseState (ρ μ : Type) where
  rho : ρ
  delR : μ
  delP : μ

/-- the whole collapse part of `surface_hopping`: if any collapse fired, ρ is the pure active state and both moments are
    zero; otherwise nothing changes. (`pure`, `zero` are supplied by the caller: |k⟩⟨k| and the zero moments.) -/
def collapseStep {ρ μ : Type} [LT α] [DecidableLT α] (gamma : Nat → α) (N k : Nat) (es : List α) (pureK : ρ) (zero : μ)
    (s : CollapseState ρ μ) : CollapseState ρ μ × List (CollapseEvent α) :=
  let evs := collapseScan gamma (otherStates N k) es
  (if evs.isEmpty then s else ⟨pureK, zero, zero⟩, evs)

end Mud

import MudExec
open Mud.Exec

def table (name : String) : Option Op :=
  (tableA ++ tableB ++ tableC ++ tableD ++ tableE ++ tableF ++ tableG ++ tableH ++ tableI ++ tableJ ++ tableK ++ tableL).lookup name

partial def loop (h : IO.FS.Stream) (out : IO.FS.Stream) : IO Unit := do
  let line ← h.getLine
  if line.isEmpty then return ()
  out.putStrLn (runLine table (line.trimAscii.toString))
  loop h out

def main : IO Unit := do
  loop (← IO.getStdin) (← IO.getStdout)

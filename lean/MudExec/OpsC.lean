/-
  MudExec.OpsC — driver operations for batch statistics (C17) and initial-condition generators (C19).
-/
import MudExec.Proto
import MudModel.Batch
import MudModel.Generators
import MudModel.Ehrenfest

namespace Mud.Exec
open Mud

/-- `batch nst T [weight ndim active pos0 nhops]×T maxhops`
    → outcome (nst×2 row-major), counts (nst×2), histogram (maxhops+1 entries) -/
def opBatch : Op := do
  let nst ← nat
  let T ← nat
  let mut ts : Array (TraceEnd Float) := #[]
  for _ in [0:T] do
    let w ← flt
    let nd ← nat
    let ac ← nat
    let x ← flt
    let nh ← nat
    ts := ts.push { weight := w, ndim := nd, active := ac, pos0 := x, nhops := nh }
  let maxh ← nat
  let l := ts.toList
  let oc := driverRow l nst
  let cn := (List.range nst).flatMap (fun s => [counts l s 0, counts l s 1])
  let hh := (List.range (maxh + 1)).map (hopHist l)
  pure (oList oc ++ oList cn ++ oList hh)

/-- `boltz scale n m.. z.. kt` → momenta -/
def opBoltz : Op := do
  let scale ← bool
  let n ← nat
  let m ← vec n
  let z ← vec n
  let kt ← flt
  if scale then pure (oVec (boltzmannScaled m z kt) ++ [oF (avgKE (boltzmannScaled m z kt) m)])
  else pure (oVec (boltzmannRaw m z kt) ++ [oF (avgKE (boltzmannRaw m z kt) m)])

/-- `normal n pos.. mom.. sigma.. zx.. zk..` → x.. k.. skip -/
def opNormal : Op := do
  let n ← nat
  let pos ← vec n
  let mom ← vec n
  let sg ← vec n
  let zx ← vec n
  let zk ← vec n
  let (x, k) := normalSample pos mom sg zx zk
  pure (oVec x ++ oVec k ++ [oB (kskip k)])

/-- `spawn entropy keylen key.. nspawned k` → for each child: keylen' key'.. -/
def opSpawn : Op := do
  let e ← nat
  let kl ← nat
  let key ← listOf kl nat
  let ns ← nat
  let k ← nat
  let s : SeedSeq := { entropy := e, spawnKey := key, nSpawned := ns }
  let (cs, s') := s.spawn k
  pure (cs.flatMap (fun c => oN c.spawnKey.length :: c.spawnKey.map oN) ++ [oN s'.nSpawned])

/-- `normalgen n k pos.. mom.. sigma.. entropy keylen key.. nspawned ndraws [zx.. zk..]×ndraws`
    → number yielded, then per yielded sample `keylen key.. x.. k..`, then the parent's spawn counter -/
def opNormalGen : Op := do
  let n ← nat
  let k ← nat
  let pos ← vec n
  let mom ← vec n
  let sg ← vec n
  let e ← nat
  let kl ← nat
  let key ← listOf kl nat
  let ns ← nat
  let nd ← nat
  let mut ds : Array ((Fin n → Float) × (Fin n → Float)) := #[]
  for _ in [0:nd] do
    let zx ← vec n
    let zk ← vec n
    ds := ds.push (zx, zk)
  let s : SeedSeq := { entropy := e, spawnKey := key, nSpawned := ns }
  let (ys, s') := normalGen pos mom sg ds.toList s k
  pure ([oN ys.length] ++ ys.flatMap (fun y => (oN y.2.spawnKey.length :: y.2.spawnKey.map oN) ++ oVec y.1.1 ++ oVec y.1.2)
        ++ [oN s'.nSpawned])

/-- `constgen entropy keylen key.. nspawned k` → number yielded, per sample `keylen key..`, the parent's spawn counter -/
def opConstGen : Op := do
  let e ← nat
  let kl ← nat
  let key ← listOf kl nat
  let ns ← nat
  let k ← nat
  let s : SeedSeq := { entropy := e, spawnKey := key, nSpawned := ns }
  let (ys, s') := constGen () s k
  pure ([oN ys.length] ++ ys.flatMap (fun y => oN y.2.spawnKey.length :: y.2.spawnKey.map oN) ++ [oN s'.nSpawned])

/-- `boltzgen scale n k x.. m.. kt entropy keylen key.. nspawned ndraws [z..]×ndraws`
    → number yielded, per sample `keylen key.. p..`, the parent's spawn counter -/
def opBoltzGen : Op := do
  let scale ← bool
  let n ← nat
  let k ← nat
  let x ← vec n
  let m ← vec n
  let kt ← flt
  let e ← nat
  let kl ← nat
  let key ← listOf kl nat
  let ns ← nat
  let nd ← nat
  let mut ds : Array (Fin n → Float) := #[]
  for _ in [0:nd] do
    let z ← vec n
    ds := ds.push z
  let s : SeedSeq := { entropy := e, spawnKey := key, nSpawned := ns }
  let (ys, s') := boltzmannGen x m kt scale ds.toList s k
  pure ([oN ys.length] ++ ys.flatMap (fun y => (oN y.2.spawnKey.length :: y.2.spawnKey.map oN) ++ oVec y.1.2)
        ++ [oN s'.nSpawned])

/-- `ehrenfest N n rho(N×N cx) H(N×N) F(N×n) FM(N×N×n)` → potential, pinned force (n), spec force (n) -/
def opEhrenfest : Op := do
  let N ← nat
  let n ← nat
  let rho ← cmat N N
  let H ← mat N N
  let F ← mat N n
  let fm ← arr (N * N * n) flt
  let FM : Fin N → Fin N → Fin n → Float := fun i j x => fm.getD ((i.val * N + j.val) * n + x.val) 0.0
  pure ([oF (ehrenfestPotential rho H)] ++ oVec (ehrenfestForcePinned rho F) ++ oVec (ehrenfestForceSpec rho FM))

def tableC : List (String × Op) :=
  [("batch", opBatch), ("boltz", opBoltz), ("normal", opNormal), ("spawn", opSpawn), ("normalgen", opNormalGen), ("constgen", opConstGen), ("boltzgen", opBoltzGen),
   ("ehrenfest", opEhrenfest)]

end Mud.Exec

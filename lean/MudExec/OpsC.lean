/-
  MudExec.OpsC — driver operations for batch statistics (C17) and initial-condition generators (C19).
-/
import MudExec.Proto
import MudModel.Batch

namespace Mud.Exec
open Mud

/-- `batch nst T [weight ndim active pos0 nhops]×T maxhops`
    → outcome (nst×2 row-major), counts (nst×2), histogram (maxhops+1 entries) -/
def opBatch : Op := do
  let nst ← nat
  let T ← nat
  let mut ts : Array (TraceEnd Float) := #[]
  for _ in [0:T] do
    let w ← flt
    let nd ← nat
    let ac ← nat
    let x ← flt
    let nh ← nat
    ts := ts.push { weight := w, ndim := nd, active := ac, pos0 := x, nhops := nh }
  let maxh ← nat
  let l := ts.toList
  let oc := driverRow l nst
  let cn := (List.range nst).flatMap (fun s => [counts l s 0, counts l s 1])
  let hh := (List.range (maxh + 1)).map (hopHist l)
  pure (oList oc ++ oList cn ++ oList hh)

def tableC : List (String × Op) := [("batch", opBatch)]

end Mud.Exec

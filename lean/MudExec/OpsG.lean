/-
  MudExec.OpsG — driver operations for the electronic propagation (C02, C07).
-/
import MudExec.Proto
import MudModel.Electronic

namespace Mud.Exec
open Mud

def tensor3 (N n : Nat) : P (Fin N → Fin N → Fin n → Float) := do
  let a ← arr (N * N * n) flt
  pure (fun i j x => a.getD ((i.val * N + j.val) * n + x.val) 0.0)

/-- `hamprop N n Hthis Hlast dthis dlast v vlast` → W (N×N complex) -/
def opHamProp : Op := do
  let N ← nat
  let n ← nat
  let h1 ← tab N N
  let h0 ← tab N N
  let d1 ← tensor3 N n
  let d0 ← tensor3 N n
  let v ← vec n
  let vl ← vec n
  pure (oCTab (hamProp h1 h0 d1 d0 (midVelocity v vl)))

/-- `expstep N diags coeff dt rho` → rho' -/
def opExpStep : Op := do
  let N ← nat
  let d ← vec N
  let c ← ctab N N
  let dt ← flt
  let rho ← ctab N N
  pure (oCTab (expStep d c dt rho))

/-- `rk4step N n eigs vecs lastH thisH tauLast tauThis vLast vThis dt maxdt start rho` → nsteps rho'
    (`TV00 = tauLast·vLast`, `TV11 = tauThis·vThis`, `TV01 = tauLast·vThis + tauThis·vLast`) -/
def opRk4Step : Op := do
  let N ← nat
  let n ← nat
  let e ← vec N
  let v ← tab N N
  let h0 ← tab N N
  let h1 ← tab N N
  let tau0 ← tensor3 N n
  let tau1 ← tensor3 N n
  let v0 ← vec n
  let v1 ← vec n
  let t00 := contract tau0 v0
  let t11 := contract tau1 v1
  let t01 := madd (contract tau0 v1) (contract tau1 v0)
  let dt ← flt
  let maxdt ← flt
  let start ← nat
  let rho ← ctab N N
  let ns := substeps dt maxdt 64 start
  pure (oN ns :: oCTab (rk4Step e v h0 h1 t00 t11 t01 dt ns rho))

def tableG : List (String × Op) :=
  [("hamprop", opHamProp), ("expstep", opExpStep), ("rk4step", opRk4Step)]

end Mud.Exec

/-
  MudExec.Proto — line protocol of the model driver.
  One operation per input line: `<op> <token>*`; one output line per input line.
  Tokens: `x<16 hex digits>` = an IEEE double by bit pattern; decimal (optionally `-`) = integer.
-/
import MudModel.Mat

namespace Mud.Exec

abbrev P := StateT (List String) (Except String)

def hexVal (c : Char) : Option Nat :=
  if c.isDigit then some (c.toNat - 48)
  else if 'a' ≤ c ∧ c ≤ 'f' then some (c.toNat - 87)
  else if 'A' ≤ c ∧ c ≤ 'F' then some (c.toNat - 55)
  else none

def parseHex (s : String) : Option Nat :=
  s.foldl (fun acc c => match acc, hexVal c with
    | some a, some d => some (a * 16 + d)
    | _, _ => none) (some 0)

def tok : P String := do
  match (← get) with
  | [] => throw "missing-token"
  | t :: ts => set ts; pure t

def nat : P Nat := do
  let t ← tok
  match t.toNat? with
  | some n => pure n
  | none => throw s!"bad-nat:{t}"

def int : P Int := do
  let t ← tok
  match t.toInt? with
  | some n => pure n
  | none => throw s!"bad-int:{t}"

def flt : P Float := do
  let t ← tok
  if t.startsWith "x" then
    match parseHex (t.drop 1).toString with
    | some n => pure (Float.ofBits n.toUInt64)
    | none => throw s!"bad-float:{t}"
  else throw s!"bad-float:{t}"

def cx : P (Cx Float) := do
  let r ← flt
  let i ← flt
  pure ⟨r, i⟩

def listOf {β : Type} (n : Nat) (p : P β) : P (List β) := do
  let mut out : Array β := #[]
  for _ in [0:n] do
    out := out.push (← p)
  pure out.toList

def arr {β : Type} (n : Nat) (p : P β) : P (Array β) := do
  let mut out : Array β := #[]
  for _ in [0:n] do
    out := out.push (← p)
  pure out

/-- vector of length `n` as a function (default-free: index is in range by construction) -/
def vec (n : Nat) : P (Fin n → Float) := do
  let a ← arr n flt
  if h : a.size = n then pure (fun i => a[i.val]'(by omega))
  else throw "vec-size"

def cvec (n : Nat) : P (Fin n → Cx Float) := do
  let a ← arr n cx
  if h : a.size = n then pure (fun i => a[i.val]'(by omega))
  else throw "cvec-size"

/-- row-major `n × m` matrix -/
def mat (n m : Nat) : P (Fin n → Fin m → Float) := do
  let a ← arr (n * m) flt
  if h : a.size = n * m then
    pure (fun i j => a[i.val * m + j.val]'(by
      have hi := i.isLt; have hj := j.isLt
      calc i.val * m + j.val < i.val * m + m := by omega
        _ = (i.val + 1) * m := by rw [Nat.add_mul, Nat.one_mul]
        _ ≤ n * m := Nat.mul_le_mul_right m hi
        _ = a.size := h.symm))
  else throw "mat-size"

def cmat (n m : Nat) : P (Fin n → Fin m → Cx Float) := do
  let a ← arr (n * m) cx
  if h : a.size = n * m then
    pure (fun i j => a[i.val * m + j.val]'(by
      have hi := i.isLt; have hj := j.isLt
      calc i.val * m + j.val < i.val * m + m := by omega
        _ = (i.val + 1) * m := by rw [Nat.add_mul, Nat.one_mul]
        _ ≤ n * m := Nat.mul_le_mul_right m hi
        _ = a.size := h.symm))
  else throw "cmat-size"

/-- row-major `n × m` matrix as data -/
def tab (n m : Nat) : P (Tab Float n m) := do
  let a ← arr (n * m) flt
  if h : a.size = n * m then pure ⟨a, h⟩ else throw "tab-size"

def ctab (n m : Nat) : P (Tab (Cx Float) n m) := do
  let a ← arr (n * m) cx
  if h : a.size = n * m then pure ⟨a, h⟩ else throw "ctab-size"

def fin (n : Nat) : P (Fin n) := do
  let k ← nat
  if h : k < n then pure ⟨k, h⟩ else throw s!"index-out-of-range:{k}/{n}"

def bool : P Bool := do
  let k ← nat
  pure (k != 0)

/-! output -/

def hexDigits (n : Nat) (width : Nat) : String :=
  let ds := Nat.toDigits 16 n
  String.ofList (List.replicate (width - ds.length) '0' ++ ds)

def oF (x : Float) : String := "x" ++ hexDigits x.toBits.toNat 16
def oN (n : Nat) : String := toString n
def oI (n : Int) : String := toString n
def oB (b : Bool) : String := if b then "1" else "0"
def oC (z : Cx Float) : List String := [oF z.re, oF z.im]
def oVec {n : Nat} (v : Fin n → Float) : List String := (List.ofFn v).map oF
def oCVec {n : Nat} (v : Fin n → Cx Float) : List String := (List.ofFn v).flatMap oC
def oMat {n m : Nat} (a : Fin n → Fin m → Float) : List String :=
  (List.ofFn fun i => oVec (a i)).flatten
def oCMat {n m : Nat} (a : Fin n → Fin m → Cx Float) : List String :=
  (List.ofFn fun i => oCVec (a i)).flatten
def oTab {n m : Nat} (a : Tab Float n m) : List String := a.arr.toList.map oF
def oCTab {n m : Nat} (a : Tab (Cx Float) n m) : List String := a.arr.toList.flatMap oC
def oList (l : List Float) : List String := l.map oF
def oOptN (o : Option Nat) : String := match o with | some n => toString n | none => "-1"

abbrev Op := P (List String)

/-- run one line against a table of operations -/
def runLine (table : String → Option Op) (line : String) : String :=
  let toks := (line.splitOn " ").filter (· ≠ "")
  match toks with
  | [] => "err empty"
  | name :: args =>
    match table name with
    | none => s!"err unknown-op:{name}"
    | some op =>
      match op.run args with
      | .ok (out, []) => " ".intercalate ("ok" :: out)
      | .ok (_, _ :: _) => "err trailing-tokens"
      | .error e => s!"err {e}"

end Mud.Exec

/-
  MudExec.OpsB — driver operations for quadrature (C18).
-/
import MudExec.Proto
import MudModel.Quadrature

namespace Mud.Exec
open Mud

/-- `quad <method> n a b …` → n points then n weights
    methods: 0 midpoint, 1 trapezoid, 2 simpson (odd n only, else `err`),
             3 gauss-legendre (followed by leggauss t.. w..), 4 gl-pinned,
             5 clenshaw-curtis (followed by pi and the s = n-1 real parts of the ifft),
             6 clenshaw-curtis with the model's own inverse DFT (followed by pi) -/
def opQuad : Op := do
  let method ← nat
  let n ← nat
  let a ← flt
  let b ← flt
  if n ≤ 1 then throw "assert-n>1"
  if ¬ (a < b) then throw "assert-b>a"
  match method with
  | 0 => pure (oVec (midpointPts n a b) ++ oVec (midpointWts n a b))
  | 1 => pure (oVec (gridPts n a b) ++ oVec (trapezoidWts n a b))
  | 2 =>
    if n % 2 ≠ 1 then throw "simpson-even-n"
    pure (oVec (gridPts n a b) ++ oVec (simpsonWts n a b))
  | 3 =>
    let t ← vec n
    let w ← vec n
    pure (oVec (glPts t a b) ++ oVec (glWts w a b))
  | 4 =>
    let t ← vec n
    let w ← vec n
    pure (oVec (glPts t a b) ++ oVec (glWtsPinned w))
  | 5 =>
    let pi ← flt
    let wcc ← arr (n - 1) flt
    let f : Nat → Float := fun j => wcc.getD j 0.0
    pure (oVec (ccPts n pi a b) ++ oVec (ccWts n f a b))
  | 6 =>
    -- Clenshaw–Curtis entirely inside the model: the inverse FFT is the model's own inverse DFT of `ccH`
    let pi ← flt
    let s := n - 1
    let hv : Array Float := Array.ofFn (fun j : Fin s => ccH (α := Float) s j)
    let tab : Array Float := Array.ofFn (fun k : Fin s => ccIdft s pi (fun j => hv.getD j.val 0.0) k.val)
    pure (oVec (ccPts n pi a b) ++ oVec (ccWts n (fun j => tab.getD j 0.0) a b))
  | _ => throw "unknown-quadrature"

/-- `cch s` → the `s` entries of `h = v + g` handed to the inverse FFT -/
def opCCH : Op := do
  let s ← nat
  pure (oVec (ccH (α := Float) s))

def tableB : List (String × Op) := [("quad", opQuad), ("cch", opCCH)]

end Mud.Exec

/-
  MudExec.OpsH — driver operations for the A-FSSH moments (C11).
-/
import MudExec.Proto
import MudModel.AFSSH

namespace Mud.Exec
open Mud

/-- `hopupdate N t d_0..d_{N-1}` (complex diagonal moments of one dimension) → spec (N cx) then pinned (N cx) -/
def opHopUpdate : Op := do
  let N ← nat
  let t ← fin N
  let d ← cvec N
  pure (oCVec (hopUpdate d t) ++ oCVec (hopUpdatePinned d t))

/-- `delr mode N eps.. co.. H.. dt mass R.. P..` → R' ; mode 0 = exp (uses eps, co), 1 = rk4 (uses H) -/
def opDelR : Op := do
  let mode ← nat
  let N ← nat
  let eps ← vec N
  let co ← ctab N N
  let H ← ctab N N
  let dt ← flt
  let mass ← flt
  let R ← ctab N N
  let P ← ctab N N
  if mode == 0 then pure (oCTab (delRexp eps co dt mass R P))
  else pure (oCTab (delRrk4 H dt mass R P))

/-- `delp mode N eps.. co.. H.. dt P.. FM.. F0 rho..` → P' -/
def opDelP : Op := do
  let mode ← nat
  let N ← nat
  let eps ← vec N
  let co ← ctab N N
  let H ← ctab N N
  let dt ← flt
  let P ← ctab N N
  let FM ← tab N N
  let F0 ← flt
  let rho ← ctab N N
  let dF := delF FM F0
  if mode == 0 then pure (oCTab (delPexp eps co dt P dF rho))
  else pure (oCTab (delPrk4 H dt P dF rho))

def tableH : List (String × Op) := [("hopupdate", opHopUpdate), ("delr", opDelR), ("delp", opDelP)]

end Mud.Exec

/-
  Ops K — whole FSSH runs: the composed step `shStep` folded over recorded per-step inputs.
-/
import MudExec.Proto
import MudExec.OpsG
import MudModel

namespace Mud.Exec
open Mud

def elecP (N n : Nat) : P (Elec Float N n) := do
  let H ← tab N N
  let dc ← tensor3 N n
  let f ← mat N n
  -- materialise the force table (a closure over the parsed array already)
  pure ⟨H, dc, f⟩

def stepInP (N n : Nat) : P (StepIn Float N n) := do
  let e ← elecP N n
  let d ← vec N
  let c ← ctab N N
  let z ← flt
  pure ⟨e, d, c, z⟩

/-- `shrun N n K mass dt x0 v0 rho0 state t0  elec0  (elec diags coeff zeta)×K`
    → per step: x(n) v(n) rho(N×N cx) state event(-1 none, 0 frustrated, 1 accepted) target -/
def opShRun : Op := do
  let N ← nat
  let n ← nat
  let K ← nat
  let m ← vec n
  let dt ← flt
  let x0 ← vec n
  let v0 ← vec n
  let rho0 ← ctab N N
  let st ← fin N
  let t0 ← flt
  let e0 ← elecP N n
  let inps ← listOf K (stepInP N n)
  let s0 : SH Float N n := ⟨Vec.ofFn x0, Vec.ofFn v0, Vec.ofFn v0, rho0, st, t0, 0⟩
  let rs := shRun m dt e0 s0 inps
  pure (rs.flatMap (fun r =>
    let s := r.1
    -- materialise vectors once
    oVec s.x.get ++ oVec s.v.get ++ oCTab s.rho ++ [toString s.state.val] ++
      (match r.2 with
       | none => ["-1", "-1"]
       | some (acc, _, t) => [if acc then "1" else "0", toString t])))

/-- `ehrun N n K mass dt x0 v0 rho0 state t0  elec0  (elec diags coeff zeta)×K` → per step: x v rho state potential -/
def opEhRun : Op := do
  let N ← nat
  let n ← nat
  let K ← nat
  let m ← vec n
  let dt ← flt
  let x0 ← vec n
  let v0 ← vec n
  let rho0 ← ctab N N
  let st ← fin N
  let t0 ← flt
  let e0 ← elecP N n
  let inps ← listOf K (stepInP N n)
  let s0 : SH Float N n := ⟨Vec.ofFn x0, Vec.ofFn v0, Vec.ofFn v0, rho0, st, t0, 0⟩
  let rs := ehRun m dt e0 s0 inps
  pure (rs.flatMap (fun r =>
    oVec r.1.x.get ++ oVec r.1.v.get ++ oCTab r.1.rho ++ [toString r.1.state.val, oF r.2]))

/-- `cumrun N n K mass dt x0 v0 rho0 state t0 zeta0  elec0  (elec diags coeff zeta u newZeta)×K`
    → per step: x v rho state event target prob_cum zeta -/
def opCumRun : Op := do
  let N ← nat
  let n ← nat
  let K ← nat
  let m ← vec n
  let dt ← flt
  let x0 ← vec n
  let v0 ← vec n
  let rho0 ← ctab N N
  let st ← fin N
  let t0 ← flt
  let z0 ← flt
  let e0 ← elecP N n
  let inps ← listOf K (do
    let i ← stepInP N n
    let u ← flt
    let nz ← flt
    pure (i, (⟨u, nz⟩ : CumIn Float)))
  let s0 : SH Float N n := ⟨Vec.ofFn x0, Vec.ofFn v0, Vec.ofFn v0, rho0, st, t0, 0⟩
  let rs := cumRun m dt e0 (s0, ⟨0.0, z0⟩) inps
  pure (rs.flatMap (fun r =>
    let s := r.1.1
    oVec s.x.get ++ oVec s.v.get ++ oCTab s.rho ++ [toString s.state.val] ++
      (match r.2 with
       | none => ["-1", "-1"]
       | some (acc, _, t) => [if acc then "1" else "0", toString t]) ++ [oF r.1.2.probCum, oF r.1.2.zeta]))

def tableK : List (String × Op) := [("shrun", opShRun), ("ehrun", opEhRun), ("cumrun", opCumRun)]

end Mud.Exec

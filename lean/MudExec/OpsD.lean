/-
  MudExec.OpsD — driver operation for the trace stores (C14, C15): one script per line.
-/
import MudExec.Proto
import MudModel.Trace

namespace Mud.Exec
open Mud Mud.Trace

structure TraceWorld where
  dir : Dir Nat Nat := []
  handles : Array (Nat × YT) := #[]      -- handle → (u, object state)
  mem : Array (List Nat) := #[]          -- in-memory traces

def TraceWorld.files (w : TraceWorld) (u : Nat) : Except String (Files Nat Nat) :=
  match w.dir.find u with
  | some f => .ok f
  | none => .error s!"no-files:{u}"

def TraceWorld.handle (w : TraceWorld) (h : Nat) : Except String (Nat × YT) :=
  match w.handles[h]? with
  | some x => .ok x
  | none => .error s!"bad-handle:{h}"

def applyOps (f : Files Nat Nat) (ops : List (Trace.Op Nat Nat)) : Except String (Files Nat Nat) :=
  match f.applyAll ops with
  | some f' => .ok f'
  | none => .error "fs-op-impossible"

/-- script tokens:
    `new pitch` · `col h x` · `colp h x` (pinned order) · `crash h x j` (first j file ops of a collect, repaired order)
    · `crashp h x j` (pinned order) · `ev h e` · `len h` · `get h i` · `iter h` · `load h` (new handle on the same files)
    · `clone h` · `dir` · `mnew` · `mcol m x` · `mget m i` · `mlen m`
    every op emits its own result tokens followed by `;` -/
partial def runTrace (w : TraceWorld) (out : Array String) : P (Array String) := do
  match (← get) with
  | [] => pure out
  | _ =>
    let op ← tok
    match op with
    | "new" =>
      let pitch ← nat
      let u := uniqueName w.dir
      let t := createdYT pitch
      let f : Files Nat Nat := createdFiles pitch
      runTrace { w with dir := w.dir.put u f, handles := w.handles.push (u, t) } (out ++ #[toString u, ";"])
    | "col" | "colp" =>
      let h ← nat
      let x ← nat
      let (u, t) ← liftExcept (w.handle h)
      let f ← liftExcept (w.files u)
      let ops : List (Trace.Op Nat Nat) := if op == "col" then collectOps t x else collectOpsPinned t x
      let t' := collectNext t
      let f' ← liftExcept (applyOps f ops)
      runTrace { w with dir := w.dir.put u f', handles := w.handles.set! h (u, t') } (out ++ #[";"])
    | "crash" | "crashp" =>
      let h ← nat
      let x ← nat
      let j ← nat
      let (u, t) ← liftExcept (w.handle h)
      let f ← liftExcept (w.files u)
      let ops : List (Trace.Op Nat Nat) := if op == "crash" then collectOps t x else collectOpsPinned t x
      let f' ← liftExcept (applyOps f (ops.take j))
      runTrace { w with dir := w.dir.put u f' } (out ++ #[toString ops.length, ";"])
    | "ev" =>
      let h ← nat
      let e ← nat
      let (u, _) ← liftExcept (w.handle h)
      let f ← liftExcept (w.files u)
      let f' ← liftExcept (applyOps f [.appendEvent e])
      runTrace { w with dir := w.dir.put u f' } (out ++ #[";"])
    | "len" =>
      let h ← nat
      let (_, t) ← liftExcept (w.handle h)
      runTrace w (out ++ #[toString (len t), ";"])
    | "get" =>
      let h ← nat
      let i ← int
      let (u, t) ← liftExcept (w.handle h)
      let f ← liftExcept (w.files u)
      let r := match getitem t f i with | some v => toString v | none => "IndexError"
      runTrace w (out ++ #[r, ";"])
    | "iter" =>
      let h ← nat
      let (u, t) ← liftExcept (w.handle h)
      let f ← liftExcept (w.files u)
      let l := iter t f
      runTrace w (out ++ #[toString l.length] ++ (l.map toString).toArray ++ #[";"])
    | "load" =>
      let h ← nat
      let (u, _) ← liftExcept (w.handle h)
      let f ← liftExcept (w.files u)
      let dead : YT := ⟨0, 0, 0⟩
      match load f with
      | Except.ok t' =>
        let w' := { w with handles := w.handles.push (u, t') }
        runTrace w' (out ++ #["ok", toString t'.logsize, toString t'.nlogs, ";"])
      | Except.error LoadErr.fileNotFound =>
        let w' := { w with handles := w.handles.push (u, dead) }
        runTrace w' (out ++ #["FileNotFoundError", ";"])
      | Except.error LoadErr.emptyPage =>
        let w' := { w with handles := w.handles.push (u, dead) }
        runTrace w' (out ++ #["TypeError", ";"])
    | "clone" =>
      let h ← nat
      let (u, t) ← liftExcept (w.handle h)
      let f ← liftExcept (w.files u)
      let (u', t', f') := clone w.dir t f
      runTrace { w with dir := w.dir.put u' f', handles := w.handles.push (u', t') } (out ++ #[toString u', ";"])
    | "dir" =>
      let mut o := out.push (toString w.dir.length)
      for (u, f) in w.dir do
        o := o ++ #[toString u, toString f.main.nlogs, toString f.main.pitch, toString f.pages.length]
        o := o ++ (f.pages.map (fun p => toString p.length)).toArray
        o := o.push (toString f.events.length)
      runTrace w (o.push ";")
    | "mnew" => runTrace { w with mem := w.mem.push [] } (out ++ #[";"])
    | "mcol" =>
      let m ← nat
      let x ← nat
      runTrace { w with mem := w.mem.modify m (· ++ [x]) } (out ++ #[";"])
    | "mget" =>
      let m ← nat
      let i ← int
      let r := match memGetitem (w.mem.getD m []) i with | some v => toString v | none => "IndexError"
      runTrace w (out ++ #[r, ";"])
    | "mlen" =>
      let m ← nat
      runTrace w (out ++ #[toString (w.mem.getD m []).length, ";"])
    | other => throw s!"bad-trace-op:{other}"
where
  liftExcept {β : Type} (e : Except String β) : P β :=
    match e with
    | .ok v => pure v
    | .error s => throw s

def opTrace : Mud.Exec.Op := do
  let o ← runTrace {} #[]
  pure o.toList

def tableD : List (String × Mud.Exec.Op) := [("trace", opTrace)]

end Mud.Exec

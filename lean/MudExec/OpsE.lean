/-
  MudExec.OpsE — driver operations for the simulation loop (C16).
-/
import MudExec.Proto
import MudModel.Loop

namespace Mud.Exec
open Mud Mud.Loop

/-- `loop maxSteps maxTime hasBox ndim [lo hi]×ndim dt te restarting n0 t0 found forceQuit x0.. K [x..]×K`
    → ranOut finalSteps finalFound nlog [idx time]×nlog -/
def opLoop : Op := do
  let maxSteps ← int
  let maxTime ← flt
  let hasBox ← bool
  let nd ← nat
  let mut box : List (Float × Float) := []
  if hasBox then
    for _ in [0:nd] do
      let lo ← flt
      let hi ← flt
      box := box ++ [(lo, hi)]
  let dt ← flt
  let te ← nat
  let restarting ← bool
  let n0 ← nat
  let t0 ← flt
  let found ← bool
  let fq ← bool
  let x0 ← listOf nd flt
  let K ← nat
  let mut xs : List (List Float) := []
  for _ in [0:K] do
    let x ← listOf nd flt
    xs := xs ++ [x]
  let L : Limits Float := { maxSteps := maxSteps, maxTime := maxTime, box := if hasBox then some box else none }
  let s0 : St Float := { nsteps := n0, time := t0, found := found, forceQuit := fq }
  if te = 0 then throw "ZeroDivisionError"
  let r := simulate L dt te restarting s0 x0 xs
  pure ([oB r.ranOut, oN r.final.nsteps, oB r.final.found, oN r.log.length] ++
        r.log.flatMap (fun p => [oN p.1, oF p.2]))

/-- `continue maxSteps maxTime hasBox ndim [lo hi].. nsteps time found forceQuit x..` → keep newFound -/
def opContinue : Op := do
  let maxSteps ← int
  let maxTime ← flt
  let hasBox ← bool
  let nd ← nat
  let mut box : List (Float × Float) := []
  if hasBox then
    for _ in [0:nd] do
      let lo ← flt
      let hi ← flt
      box := box ++ [(lo, hi)]
  let n ← nat
  let t ← flt
  let found ← bool
  let fq ← bool
  let x ← listOf nd flt
  let L : Limits Float := { maxSteps := maxSteps, maxTime := maxTime, box := if hasBox then some box else none }
  let (c, f) := continueSim L { nsteps := n, time := t, found := found, forceQuit := fq } x
  pure [oB c, oB f]

def tableE : List (String × Op) := [("loop", opLoop), ("continue", opContinue)]

end Mud.Exec

/-
  MudExec.OpsI — driver operations for the basis transformation (C05, C06).
-/
import MudExec.Proto
import MudModel.Basis
import MudModel.Models

namespace Mud.Exec
open Mud Mud.Models

/-- `basis N n hasRef coeff(N×N) ref(N×N) E(N) guard dV(n × N×N)`
    → fixed coeff (N×N), force (N×n), force matrix (N×N×n), coupling (N×N×n) -/
def opBasis : Op := do
  let N ← nat
  let n ← nat
  let hasRef ← bool
  let coeff ← tab N N
  let ref ← tab N N
  let E ← vec N
  let guard ← flt
  let mut dvs : Array (Tab Float N N) := #[]
  for _ in [0:n] do
    dvs := dvs.push (← tab N N)
  let dV : Fin n → Tab Float N N := fun x => dvs.getD x.val coeff
  let c := if hasRef then signFix coeff ref else coeff
  let force := (List.ofFn fun (i : Fin N) => List.ofFn fun (x : Fin n) => forceVec dV c i x).flatten
  let fm := (List.ofFn fun (p : Fin N) => (List.ofFn fun (q : Fin N) =>
      List.ofFn fun (x : Fin n) => forceMatrix dV c p q x).flatten).flatten
  let dc := (List.ofFn fun (p : Fin N) => (List.ofFn fun (q : Fin N) =>
      List.ofFn fun (x : Fin n) => derivCoupling guard dV c E p q x).flatten).flatten
  pure (oTab c ++ oList force ++ oList fm ++ oList dc)

/-- `track N L ref0(N×N) [coeff(N×N)]×L` → the L tracked sets (each N×N) -/
def opTrack : Op := do
  let N ← nat
  let L ← nat
  let ref0 ← tab N N
  let mut cs : Array (Tab Float N N) := #[]
  for _ in [0:L] do
    cs := cs.push (← tab N N)
  pure ((track ref0 cs.toList).flatMap oTab)

/-- `mv <entry> p1 p2 p3 p4 k x` → V-entry, dV-entry (and the pinned dV-entry for models W, Z)
    entries: 0 simple11(A,B) 1 simple12(C,D) 2 dual22(A,B,E0) 3 dual12(C,D) 4 ext12(B,C) 5 super(v)
             6 modelx11(a,b,xp) 7 modelx22 8 modelx33 9 gauss(c; y=x+p2) 10 models11(a,b,xp) 11 models33(a,d) 12 models12(c,xp)
             13 modelw diag(s,eps; m=k) 14 modelz diag(eps; N=p4 as nat via k2, m=k) -/
def opModelEntry : Op := do
  let e ← nat
  let p1 ← flt
  let p2 ← flt
  let p3 ← flt
  let k ← nat
  let k2 ← nat
  let x ← flt
  match e with
  | 0 => pure [oF (simpleV11 p1 p2 x), oF (simpleD11 p1 p2 x)]
  | 1 => pure [oF (simpleV12 p1 p2 x), oF (simpleD12 p1 p2 x)]
  | 2 => pure [oF (dualV22 p1 p2 p3 x), oF (dualD22 p1 p2 x)]
  | 3 => pure [oF (dualV12 p1 p2 x), oF (dualD12 p1 p2 x)]
  | 4 => pure [oF (extendedV12 p1 p2 x), oF (extendedD12 p1 p2 x)]
  | 5 => pure [oF (superV p1 x), oF (superD p1 x)]
  | 6 => pure [oF (modelxV11 p1 p2 p3 x), oF (modelxD11 p1 p2 p3 x)]
  | 7 => pure [oF (modelxV22 p1 p2 p3 x), oF (modelxD22 p1 p2 p3 x)]
  | 8 => pure [oF (modelxV33 p1 p2 p3 x), oF (modelxD33 p1 p2 p3 x)]
  | 9 => pure [oF (gaussTerm p1 (x + p2)), oF (gaussTermD p1 (x + p2))]
  | 10 => pure [oF (modelsV11 p1 p2 p3 x), oF (modelsD11 p1 p2 p3 x)]
  | 11 => pure [oF (modelsV33 p1 p2 x), oF (modelsD33 p1 p2 x)]
  | 12 => pure [oF (modelsV12 p1 p2 x), oF (modelsD12 p1 p2 x)]
  | 13 => pure [oF (modelwDiag p1 p2 k x), oF (modelwDiagD p1), oF (modelwDiagDPinned p1 p2 k)]
  | 14 => pure [oF (modelzDiag k2 p1 k x), oF (modelzDiagD (α := Float) k2 k), oF (modelzDiagDPinned k2 p1 k x)]
  | _ => throw "unknown-model-entry"

/-- `sub2d a b c d f g w hp x y` → V11 V22 V12  D11x D22x D12x  D22y -/
def opSub2d : Op := do
  let a ← flt; let b ← flt; let c ← flt; let d ← flt; let f ← flt; let g ← flt; let w ← flt; let hp ← flt
  let x ← flt; let y ← flt
  pure [oF (sub2dV11 f b x), oF (sub2dV22 a b w g hp x y), oF (sub2dV12 c d x),
        oF (sub2dD11x f b x), oF (sub2dD22x a b w g hp x y), oF (sub2dD12x c d x), oF (sub2dD22y a b w g hp x y)]

/-- `vib E1 E2 lamb r0 om(4) k1(4) k2(4) An(4) X(4) theta`
    → V11 V22 V12, d/dX_i of V11 (4), of V22 (4), d/dθ of the diagonal, d/dθ of V12 -/
def opVib : Op := do
  let e1 ← flt; let e2 ← flt; let lamb ← flt; let r0 ← flt
  let om ← vec 4; let k1 ← vec 4; let k2 ← vec 4; let an ← vec 4; let X ← vec 4; let th ← flt
  pure ([oF (vibDiag e1 om k1 an X th), oF (vibDiag e2 om k2 an X th), oF (vibV12 lamb r0 th)] ++
        oVec (vibDiagDmode om k1 X) ++ oVec (vibDiagDmode om k2 X) ++ [oF (vibDiagDtheta an th), oF (vibD12theta lamb r0 th)])

def tableI : List (String × Op) := [("basis", opBasis), ("track", opTrack), ("mv", opModelEntry), ("sub2d", opSub2d), ("vib", opVib)]

end Mud.Exec

/-
  MudExec.OpsI — driver operations for the basis transformation (C05, C06).
-/
import MudExec.Proto
import MudModel.Basis
import MudModel.Models

namespace Mud.Exec
open Mud Mud.Models

/-- `basis N n hasRef coeff(N×N) ref(N×N) E(N) guard dV(n × N×N)`
    → fixed coeff (N×N), force (N×n), force matrix (N×N×n), coupling (N×N×n) -/
def opBasis : Op := do
  let N ← nat
  let n ← nat
  let hasRef ← bool
  let coeff ← tab N N
  let ref ← tab N N
  let E ← vec N
  let guard ← flt
  let mut dvs : Array (Tab Float N N) := #[]
  for _ in [0:n] do
    dvs := dvs.push (← tab N N)
  let dV : Fin n → Tab Float N N := fun x => dvs.getD x.val coeff
  let c := if hasRef then signFix coeff ref else coeff
  let force := (List.ofFn fun (i : Fin N) => List.ofFn fun (x : Fin n) => forceVec dV c i x).flatten
  let fm := (List.ofFn fun (p : Fin N) => (List.ofFn fun (q : Fin N) =>
      List.ofFn fun (x : Fin n) => forceMatrix dV c p q x).flatten).flatten
  let dc := (List.ofFn fun (p : Fin N) => (List.ofFn fun (q : Fin N) =>
      List.ofFn fun (x : Fin n) => derivCoupling guard dV c E p q x).flatten).flatten
  pure (oTab c ++ oList force ++ oList fm ++ oList dc)

/-- `mv <entry> p1 p2 p3 p4 k x` → V-entry, dV-entry (and the pinned dV-entry for models W, Z)
    entries: 0 simple11(A,B) 1 simple12(C,D) 2 dual22(A,B,E0) 3 dual12(C,D) 4 ext12(B,C) 5 super(v)
             6 modelx11(a,b,xp) 7 modelx22 8 modelx33 9 gauss(c; y=x+p2) 10 models11(a,b,xp) 11 models33(a,d) 12 models12(c,xp)
             13 modelw diag(s,eps; m=k) 14 modelz diag(eps; N=p4 as nat via k2, m=k) -/
def opModelEntry : Op := do
  let e ← nat
  let p1 ← flt
  let p2 ← flt
  let p3 ← flt
  let k ← nat
  let k2 ← nat
  let x ← flt
  match e with
  | 0 => pure [oF (simpleV11 p1 p2 x), oF (simpleD11 p1 p2 x)]
  | 1 => pure [oF (simpleV12 p1 p2 x), oF (simpleD12 p1 p2 x)]
  | 2 => pure [oF (dualV22 p1 p2 p3 x), oF (dualD22 p1 p2 x)]
  | 3 => pure [oF (dualV12 p1 p2 x), oF (dualD12 p1 p2 x)]
  | 4 => pure [oF (extendedV12 p1 p2 x), oF (extendedD12 p1 p2 x)]
  | 5 => pure [oF (superV p1 x), oF (superD p1 x)]
  | 6 => pure [oF (modelxV11 p1 p2 p3 x), oF (modelxD11 p1 p2 p3 x)]
  | 7 => pure [oF (modelxV22 p1 p2 p3 x), oF (modelxD22 p1 p2 p3 x)]
  | 8 => pure [oF (modelxV33 p1 p2 p3 x), oF (modelxD33 p1 p2 p3 x)]
  | 9 => pure [oF (gaussTerm p1 (x + p2)), oF (gaussTermD p1 (x + p2))]
  | 10 => pure [oF (modelsV11 p1 p2 p3 x), oF (modelsD11 p1 p2 p3 x)]
  | 11 => pure [oF (modelsV33 p1 p2 x), oF (modelsD33 p1 p2 x)]
  | 12 => pure [oF (modelsV12 p1 p2 x), oF (modelsD12 p1 p2 x)]
  | 13 => pure [oF (modelwDiag p1 p2 k x), oF (modelwDiagD p1), oF (modelwDiagDPinned p1 p2 k)]
  | 14 => pure [oF (modelzDiag k2 p1 k x), oF (modelzDiagD (α := Float) k2 k), oF (modelzDiagDPinned k2 p1 k x)]
  | _ => throw "unknown-model-entry"

def tableI : List (String × Op) := [("basis", opBasis), ("mv", opModelEntry)]

end Mud.Exec

/-
  Ops J — A-FSSH collapse: `gamma_collapse` and the collapse loop of `surface_hopping`.
-/
import MudExec.Proto
import MudModel

namespace Mud.Exec
open Mud

/-- `gamma N n k  R(n×N)  P(n×N)  F(N×n)  dt` → gamma_0 … gamma_{N-1} -/
def opGamma : Op := do
  let N ← nat
  let n ← nat
  let k ← fin N
  let R ← mat n N
  let P ← mat n N
  let F ← mat N n
  let dt ← flt
  pure (oVec (gammaCollapse k R P F dt))

/-- `collapse N k  gamma_0..gamma_{N-1}  m e_1..e_m` → `collapsed(0/1) nevents (removed gamma)*` -/
def opCollapse : Op := do
  let N ← nat
  let k ← nat
  let g ← vec N
  let m ← nat
  let es ← listOf m flt
  let gam : Nat → Float := fun i => if h : i < N then g ⟨i, h⟩ else 0.0
  let (s, evs) := collapseStep (ρ := Nat) (μ := Nat) gam N k es 1 0 ⟨0, 7, 7⟩
  pure ([toString s.rho, toString evs.length] ++ evs.flatMap (fun e => [toString e.removed, oF e.gamma]))

def tableJ : List (String × Op) := [("gamma", opGamma), ("collapse", opCollapse)]

end Mud.Exec

/-
  MudExec.OpsA — driver operations for Poisson scale (C20), hops (C01, C04),
  hop probabilities (C03), cumulative hopper (C09).
-/
import MudExec.Proto
import MudModel.Hop
import MudModel.Hopping
import MudModel.Verlet

namespace Mud.Exec
open Mud

/-- `expm1 x` : self-test of the Float `expm1` composite -/
def opExpm1 : Op := do
  let x ← flt
  pure [oF (HasExp.expm1 x)]

/-- `pscale x` → value, branch (1 = series) -/
def opPScale : Op := do
  let x ← flt
  pure [oF (poissonScale x), oB (poissonSmall x)]

def opPScalePinned : Op := do
  let x ← flt
  pure [oF (poissonScalePinned x), oB (poissonSmall x)]

/-- `pscalec re im` → re, im, branch -/
def opPScaleC : Op := do
  let z ← cx
  pure (oC (poissonScaleC z) ++ [oB (poissonSmallC z)])

def opPScalePinnedC : Op := do
  let z ← cx
  pure (oC (poissonScalePinnedC z) ++ [oB (poissonSmallC z)])

/-- `kinetic n m.. v..` -/
def opKinetic : Op := do
  let n ← nat
  let m ← vec n
  let v ← vec n
  pure [oF (kinetic m v)]

/-- `hop n N m.. v.. d.. E.. source target`
    → accepted state v'.. evFrom evTo a b c s sBig -/
def opHop : Op := do
  let n ← nat
  let N ← nat
  let m ← vec n
  let v ← vec n
  let d ← vec n
  let e ← vec N
  let s ← fin N
  let t ← fin N
  let r := hopToIt m v d e s t
  let u := unitVec d
  let a := quadA m u
  let b := quadB v u
  let c := -(lit 2 * (-(e t - e s)))
  pure ([oB r.accepted, oN r.state] ++ oVec r.velocity ++ [oN r.evFrom, oN r.evTo,
        oF a, oF b, oF c, oF (smallRoot a b c), oF (bigRoot a b c)])

/-- `hopallowed n m.. v.. d.. dE` → 0/1 and the margin `b² − 4ac`, scale `b²+|4ac|` -/
def opHopAllowed : Op := do
  let n ← nat
  let m ← vec n
  let v ← vec n
  let d ← vec n
  let dE ← flt
  let u := unitVec d
  let a := quadA m u
  let b := quadB v u
  let c := -(lit 2 * dE)
  pure [oB (hopAllowed m v d dE), oF (b * b - lit 4 * a * c), oF (b * b + Float.abs (lit 4 * a * c))]

/-- `gkndt N rho(N×N complex) W(N×N complex) k dt` → g_0..g_{N-1} (clipped), raw_0.. -/
def opGkndt : Op := do
  let N ← nat
  let rho ← cmat N N
  let W ← cmat N N
  let k ← fin N
  let dt ← flt
  pure (oVec (gkndt rho W k dt) ++ oVec (gRaw rho W k dt))

/-- `hopper poisson N g.. zeta` → hopping target prob, then the cumulative sums -/
def opHopper : Op := do
  let poisson ← bool
  let N ← nat
  let g ← listOf N flt
  let ζ ← flt
  let (h, r) := hopper poisson ζ g
  let cs := cumsum (hopProbs poisson g)
  match r with
  | some (i, p) => pure ([oF h, oI i, oF p] ++ oList cs)
  | none => pure ([oF h, "-1", oF 0.0] ++ oList cs)

/-- `cumseq N K zeta0 [g_1..g_N u newzeta]×K`
    → per step: attempted target zeta_used prob probCum_after zeta_after -/
def opCumSeq : Op := do
  let N ← nat
  let K ← nat
  let z0 ← flt
  let mut s : CumState Float := { probCum := 0.0, zeta := z0 }
  let mut out : Array String := #[]
  for _ in [0:K] do
    let g ← listOf N flt
    let u ← flt
    let nz ← flt
    let (s', r) := cumHopper s g u nz
    s := s'
    match r with
    | some (t, z, p) =>
      out := out ++ #["1", oOptN t, oF z, oF p, oF s'.probCum, oF s'.zeta]
    | none =>
      out := out ++ #["0", "-1", oF 0.0, oF 0.0, oF s'.probCum, oF s'.zeta]
  pure out.toList

/-- `choice N p.. u` → index -/
def opChoice : Op := do
  let N ← nat
  let p ← listOf N flt
  let u ← flt
  pure [oOptN (choiceIdx u p)]

/-- `verlet n m.. x.. v.. F0.. F1.. dt` → x'.. v'.. kinetic' -/
def opVerlet : Op := do
  let n ← nat
  let m ← vec n
  let x ← vec n
  let v ← vec n
  let f0 ← vec n
  let f1 ← vec n
  let dt ← flt
  let a0 := accel f0 m
  let x' := advancePosition x v a0 dt
  let v' := advanceVelocity v a0 (accel f1 m) dt
  pure (oVec x' ++ oVec v' ++ [oF (kinetic m v')])

def tableA : List (String × Op) :=
  [("expm1", opExpm1), ("pscale", opPScale), ("pscale_pinned", opPScalePinned),
   ("pscalec", opPScaleC), ("pscalec_pinned", opPScalePinnedC),
   ("kinetic", opKinetic), ("hop", opHop), ("hopallowed", opHopAllowed),
   ("verlet", opVerlet), ("gkndt", opGkndt), ("hopper", opHopper), ("cumseq", opCumSeq), ("choice", opChoice)]

end Mud.Exec

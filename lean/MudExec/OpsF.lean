/-
  MudExec.OpsF — driver operations for the spawn stack (C10).
-/
import MudExec.Proto
import MudModel.SpawnStack
import MudModel.Clone

namespace Mud.Exec
open Mud Mud.Spawn

/-- parse a list of trees: `k` then `k` nodes, each `zeta dw spawnSize <list of children>` -/
partial def treeList : P (List (Tree Float)) := do
  let k ← nat
  let mut out : List (Tree Float) := []
  for _ in [0:k] do
    let z ← flt
    let d ← flt
    let ss ← nat
    let kids ← treeList
    out := out ++ [Tree.node z d ss kids]
  pure out

/-- `stack <trees> base  ops…` with ops `nz h a` · `w h` · `ss h` · `sp h r` · `cw h nspawn m r_1..r_m`;
    each op prints: izeta zeta marginal lastDw weight [extra] `;` -/
partial def runStack (hs : Array (Stack Float)) (out : Array String) : P (Array String) := do
  match (← get) with
  | [] => pure out
  | _ =>
    let op ← tok
    let h ← nat
    let st ← match hs[h]? with
      | some s => pure s
      | none => throw s!"bad-handle:{h}"
    let summary (s : Stack Float) : Array String :=
      #[toString s.izeta, oF s.zeta, oF s.marginal, oF s.lastDw, oF s.weight]
    match op with
    | "nz" =>
      let a ← flt
      if st.samples.isEmpty then throw "empty-stack-uses-rng"
      let s' := st.nextZeta a
      runStack (hs.set! h s') (out ++ summary s' ++ #[";"])
    | "w" => runStack hs (out ++ summary st ++ #[";"])
    | "ss" => runStack hs (out ++ summary st ++ #[toString st.spawnSize, ";"])
    | "sp" =>
      let r ← flt
      match st.spawn r with
      | some c => runStack (hs.push c) (out ++ summary st ++ #[oF c.base, toString c.samples.length, ";"])
      | none => runStack hs (out ++ summary st ++ #["Exception", ";"])
    | "cw" =>
      let ns ← nat
      let m ← nat
      let r ← listOf m flt
      runStack hs (out ++ summary st ++ (childWeights st r ns).toArray.map oF ++ #[";"])
    | other => throw s!"bad-stack-op:{other}"

def opStack : Op := do
  let trees ← treeList
  let base ← flt
  let o ← runStack #[Stack.init trees base] #[]
  pure o.toList

/-- `tensor L [n [z w]×n]×L` → count, then per flattened point: its L coordinates and its weight -/
def opTensor : Op := do
  let L ← nat
  let mut rules : List (List (Float × Float)) := []
  for _ in [0:L] do
    let n ← nat
    let mut lv : List (Float × Float) := []
    for _ in [0:n] do
      let z ← flt
      let w ← flt
      lv := lv ++ [(z, w)]
    rules := rules ++ [lv]
  let t := tensor rules
  pure (oN t.length :: t.flatMap (fun pw => oList pw.1 ++ [oF pw.2]))

/-- `draws k nz z.. ns s..` → the first k thresholds a trajectory uses -/
def opDraws : Op := do
  let k ← nat
  let nz ← nat
  let zl ← listOf nz flt
  let ns ← nat
  let st ← listOf ns flt
  pure (oList (Clone.drawMany k zl st))

def tableF : List (String × Op) := [("stack", opStack), ("tensor", opTensor), ("draws", opDraws)]

end Mud.Exec

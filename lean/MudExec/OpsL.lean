/-
  Ops L — whole A-FSSH runs (`afStep` folded over recorded inputs).
-/
import MudExec.Proto
import MudExec.OpsG
import MudExec.OpsK
import MudModel

namespace Mud.Exec
open Mud

def elecAP (N n : Nat) : P (ElecA Float N n) := do
  let e ← elecP N n
  let fm ← tensor3 N n
  pure ⟨e, fm⟩

def aStepInP (N n : Nat) : P (AStepIn Float N n) := do
  let e ← elecAP N n
  let epsR ← vec N
  let coR ← ctab N N
  let epsP ← vec N
  let coP ← ctab N N
  let d ← vec N
  let c ← ctab N N
  let z ← flt
  let ne ← nat
  let es ← listOf ne flt
  pure ⟨e, epsR, coR, epsP, coP, d, c, z, es⟩

/-- `afrun N n K mass dt x0 v0 vlast0 rho0 state t0  elecA0  (elecA epsR coR epsP coP diags coeff zeta ne e_1..e_ne)×K`
    → per step: x v rho state event target ncollapse HR(N×N cx) W(N×N cx) delR_x(N×N cx)×n delP_x×n -/
def opAfRun : Op := do
  let N ← nat
  let n ← nat
  let K ← nat
  let m ← vec n
  let dt ← flt
  let x0 ← vec n
  let v0 ← vec n
  let vl0 ← vec n
  let rho0 ← ctab N N
  let st ← fin N
  let t0 ← flt
  let e0 ← elecAP N n
  let inps ← listOf K (aStepInP N n)
  let s0 : SH Float N n := ⟨Vec.ofFn x0, Vec.ofFn v0, Vec.ofFn vl0, rho0, st, t0, 0⟩
  let a0 : AF Float N n := ⟨s0, Vec.ofFn (fun _ => zeroMoment), Vec.ofFn (fun _ => zeroMoment)⟩
  let rs := afRun m dt e0 e0 a0 inps
  pure (rs.flatMap (fun r =>
    let s := r.1.s
    oVec s.x.get ++ oVec s.v.get ++ oCTab s.rho ++ [toString s.state.val] ++
      (match r.2.1.1 with
       | none => ["-1", "-1"]
       | some (acc, _, t) => [if acc then "1" else "0", toString t]) ++
      [toString r.2.1.2.length] ++ oCTab r.2.2.HR ++ oCTab r.2.2.W ++
      (List.ofFn (fun x : Fin n => oCTab (r.1.delR.get x))).flatten ++
      (List.ofFn (fun x : Fin n => oCTab (r.1.delP.get x))).flatten))

def tableL : List (String × Op) := [("afrun", opAfRun)]

end Mud.Exec

import MudModel.Num
import MudModel.Cx
import MudModel.Poisson
import MudModel.Hop
import MudModel.Hopping
import MudModel.Verlet
import MudModel.Quadrature
import MudModel.Batch

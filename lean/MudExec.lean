import MudExec.Proto
import MudExec.OpsA

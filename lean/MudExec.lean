import MudExec.Proto
import MudExec.OpsA
import MudExec.OpsB
import MudExec.OpsC
import MudExec.OpsD
import MudExec.OpsE
import MudExec.OpsF
import MudExec.OpsG
